#!/usr/bin/env python3
"""mkmutant.py <name> <file> <old> <new> [<file> <old> <new> ...] — builds mutants/<name>.patch from
literal replacements in a scratch worktree of /repo HEAD (never edits /repo)."""
import subprocess, sys, tempfile, os
name=sys.argv[1]; edits=sys.argv[2:]
wt=tempfile.mkdtemp(prefix='verif-mk-',dir='/tmp')
subprocess.run(['git','-C','/repo','worktree','add','-q','--detach',wt,'HEAD'],check=True)
try:
    for i in range(0,len(edits),3):
        f,old,new=edits[i:i+3]
        p=os.path.join(wt,f); s=open(p).read()
        if old not in s: sys.exit(f"{name}: old text not found in {f}")
        open(p,'w').write(s.replace(old,new,1))
    r=subprocess.run(['go','build','./...'],cwd=wt,capture_output=True,text=True,env=dict(os.environ,GOFLAGS='-mod=mod',GOPROXY='off',GOSUMDB='off',GOTOOLCHAIN='local'))
    if r.returncode!=0: sys.exit(f"{name}: does not build:\n{r.stderr}")
    d=subprocess.run(['git','-C',wt,'diff'],capture_output=True,text=True).stdout
    open(f'/verif/mutants/{name}.patch','w').write(d)
    print('wrote',name, len(d.splitlines()),'lines')
finally:
    subprocess.run(['git','-C','/repo','worktree','remove','--force',wt])
