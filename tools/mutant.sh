#!/bin/sh
# tools/mutant.sh <patch> <check-id> [tier] — applies a patch to a scratch worktree of /repo
# (never to /repo), runs one check against it, prints the result, removes the worktree.
set -u
patch=$(readlink -f "$1"); id=$2; tier=${3:-quick}
wt=$(mktemp -d /tmp/verif-mut-XXXXXX); out=$(mktemp -d /tmp/verif-mutout-XXXXXX)
# a seeded change whose manifest condition was removed by a later fix: commit names the tree
# it was confirmed on (seeded/<name>/base)
base=HEAD; [ -f "$(dirname "$patch")/base" ] && base=$(cat "$(dirname "$patch")/base")
git -C /repo worktree add -q --detach "$wt" "$base" || exit 2
cleanup() { git -C /repo worktree remove --force "$wt" >/dev/null 2>&1; rm -rf "$wt" "$out"; }
trap cleanup EXIT
if ! git -C "$wt" apply "$patch"; then echo "PATCH-FAILED $patch"; exit 2; fi
cd "$(dirname "$0")/.." || exit 2
cp known-findings.json "$out"/ 2>/dev/null
VERIF_REPO="$wt" VERIF_DIR="$out" ./bin/verif check "$id" "$tier" > "$out/log" 2>&1
code=$?
grep -m3 -A2 "^VIOLATION" "$out/log" | cut -c1-300
[ $code -ne 0 ] && [ $code -ne 1 ] && tail -5 "$out/log"
echo "RESULT patch=$(basename "$patch") check=$id tier=$tier exit=$code"
exit $code
