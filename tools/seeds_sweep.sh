#!/bin/sh
# tools/seeds_sweep.sh <from> <to> [tier] — runs every check for a range of VERIF_SEED values on the
# unchanged tree (false-alarm hunt). Evidence/replays go to a scratch VERIF_DIR.
cd "$(dirname "$0")/.." || exit 2
export GOFLAGS=-mod=mod GOPROXY=off GOSUMDB=off GOTOOLCHAIN=local GOWORK=off
go build -o bin/verif ./cmd/verif || exit 2
out=$(mktemp -d /tmp/verif-sweep-XXXXXX); cp known-findings.json "$out"/
bad=0
for s in $(seq "$1" "$2"); do
  for p in C04 C07 C09 C15 C16 C17; do
    VERIF_SEED=$s VERIF_DIR="$out" ./bin/verif check $p "${3:-quick}" > "$out/log" 2>&1; c=$?
    echo "seed=$s $p exit=$c $(tail -1 "$out/log" | cut -c1-160)"
    if [ $c -ne 0 ]; then bad=$((bad+1)); grep -A3 "VIOLATION\|infrastructure" "$out/log" | head -12; mkdir -p sweep-failures; cp "$out"/replays/* sweep-failures/ 2>/dev/null; fi
  done
done
rm -rf "$out"
echo "SWEEP done bad=$bad"
[ $bad -eq 0 ]
