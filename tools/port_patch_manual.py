#!/usr/bin/env python3
"""Resolution rule for patches whose insertion collides with an insertion of a fix commit in front of
the same function: when both sides of a conflict end with the declaration line of the same
function, keep the patch's inserted block followed by the tree's block; otherwise union for
import blocks and the patch's side elsewhere."""
import os, re, subprocess, sys, tempfile, shutil
patch = os.path.abspath(sys.argv[1])
wt = tempfile.mkdtemp(prefix="verif-port3-", dir="/tmp")
env = dict(os.environ, GOFLAGS="-mod=mod", GOPROXY="off", GOSUMDB="off", GOTOOLCHAIN="local")
def run(*a): return subprocess.run(a, cwd=wt, env=env, capture_output=True, text=True)
subprocess.run(["git", "-C", "/repo", "worktree", "add", "-q", "--detach", wt, "HEAD"], check=True)
def fname(l):
    m = re.match(r'func (\([^)]*\) )?(\w+)\(', l)
    return m.group(2) if m else None
try:
    run("git", "apply", "--3way", patch)
    for f in run("git", "diff", "--name-only", "--diff-filter=U").stdout.split():
        p = os.path.join(wt, f); out = []; state = None
        for i, l in enumerate(open(p).read().split("\n")):
            if l.startswith("<<<<<<< "): state = "o"; ours = []; theirs = []; start = i; continue
            if l.startswith("=======") and state == "o": state = "t"; continue
            if l.startswith(">>>>>>> ") and state == "t":
                state = None
                if ours and theirs and fname(ours[-1]) and fname(ours[-1]) == fname(theirs[-1]):
                    if os.environ.get("PREFER_SIGNATURE") == "patch":
                        out += ours[:-1] + theirs
                    else:
                        out += theirs[:-1] + ours
                elif start < 25:
                    seen = []
                    for x in ours + theirs:
                        if x not in seen or not x.strip(): seen.append(x)
                    out += seen
                else:
                    # line-wise: keep lines of the tree that the patch did not touch is not decidable here
                    out += theirs
                continue
            if state == "o": ours.append(l)
            elif state == "t": theirs.append(l)
            else: out.append(l)
        open(p, "w").write("\n".join(out)); run("gofmt", "-w", f)
    b = run("go", "build", "./...")
    if b.returncode != 0:
        for f, imp in re.findall(r'(\S+\.go):\d+:\d+: "(\w+)" imported and not used', b.stderr):
            q = os.path.join(wt, f); s = open(q).read().replace('\t"%s"\n' % imp, "", 1); open(q, "w").write(s)
        b = run("go", "build", "./...")
    if b.returncode != 0:
        print("PORT3-FAILED", patch, b.stderr[:1500]); sys.exit(1)
    run("git", "add", "-A")
    d = run("git", "diff", "--cached", "HEAD", "--", ".", ":!seeded_demo").stdout
    orig = os.path.join(os.path.dirname(patch), "patch.orig.diff")
    if not os.path.exists(orig): shutil.copy(patch, orig)
    open(patch, "w").write(d); print("PORTED3", patch)
finally:
    subprocess.run(["git", "-C", "/repo", "worktree", "remove", "--force", wt])
