#!/bin/sh
# tools/mutants_all.sh [tier] — sensitivity self-test: every patch under mutants/ and seeded/*/ is
# applied to a scratch worktree of /repo HEAD (never to /repo) and the check of its property must
# report a VIOLATION; prints one line per patch. Exit 0 when all are caught.
cd "$(dirname "$0")/.." || exit 2
tier=${1:-quick}
export VERIF_SEED=${2:-1}
export GOFLAGS=-mod=mod GOPROXY=off GOSUMDB=off GOTOOLCHAIN=local GOWORK=off
go build -o bin/verif ./cmd/verif || exit 2
missed=0; total=0
for p in mutants/*.patch seeded/*/patch.diff; do
  [ -f "$p" ] || continue
  case "$p" in
    mutants/*) id=$(basename "$p" | cut -c1-3 | tr a-z A-Z);;
    *) id=$(basename "$(dirname "$p")" | cut -c1-3);;
  esac
  total=$((total+1))
  out=$(./tools/mutant.sh "$p" "$id" "$tier" 2>&1)
  code=$(echo "$out" | sed -n 's/^RESULT.*exit=\([0-9]*\)$/\1/p' | tail -1)
  class=$(echo "$out" | sed -n 's/^  class=\([^ ]*\).*/\1/p' | head -1)
  if [ "$code" = "1" ]; then echo "CAUGHT  $id $tier $p class=$class"; else echo "MISSED  $id $tier $p exit=$code"; missed=$((missed+1)); fi
done
echo "SUMMARY tier=$tier seed=$VERIF_SEED total=$total missed=$missed"
[ $missed -eq 0 ]
