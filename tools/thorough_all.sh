#!/bin/sh
# tools/thorough_all.sh — every claimed property at the thorough tier, one after the other.
cd "$(dirname "$0")/.." || exit 2
rc=0
for id in C07 C15 C17 C16 C09 C04; do
  ./run.sh check $id thorough > /tmp/thorough-$id.log 2>&1; c=$?
  grep -E "^(OK|VIOLATION|KNOWN-FINDING)|infrastructure" /tmp/thorough-$id.log | cut -c1-220
  echo "THOROUGH $id exit=$c"
  [ $c -ne 0 ] && rc=1
done
exit $rc
