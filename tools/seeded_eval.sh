#!/bin/sh
# tools/seeded_eval.sh <agent-worktree> <property-id> <name>
# Confirms a sub-agent's seeded change independently in a fresh scratch worktree of /repo HEAD:
#  (1) patch applies, project builds; (2) stock test suite passes with the patch;
#  (3) demo passes without the patch and fails with it.  Then stores it under /verif/seeded/<name>/.
set -u
src=$1; id=$2; name=$3
export GOFLAGS=-mod=mod GOPROXY=off GOSUMDB=off GOTOOLCHAIN=local
[ -f "$src/seeded_patch.diff" ] || { echo "no seeded_patch.diff in $src"; exit 2; }
wt=$(mktemp -d /tmp/verif-seedchk-XXXXXX)
git -C /repo worktree add -q --detach "$wt" HEAD || exit 2
trap 'git -C /repo worktree remove --force "$wt" >/dev/null 2>&1; rm -rf "$wt"' EXIT
cp -r "$src/seeded_demo" "$wt/seeded_demo" 2>/dev/null
runcmd=$(head -1 "$src/seeded_demo/RUN.txt" 2>/dev/null)
echo "demo command: $runcmd"
( cd "$wt" && sh -c "$runcmd" ) >"$wt/.demo_clean.log" 2>&1; clean=$?
echo "demo without patch: exit $clean"
git -C "$wt" apply "$src/seeded_patch.diff" || { echo "PATCH DOES NOT APPLY"; exit 3; }
( cd "$wt" && go build ./... ) || { echo "DOES NOT BUILD"; exit 3; }
( cd "$wt" && go test -vet=off -count=1 ./... ) >"$wt/.suite.log" 2>&1; suite=$?
echo "stock suite with patch: exit $suite"; [ $suite -ne 0 ] && grep -E "^(---|FAIL|panic)" "$wt/.suite.log" | head
( cd "$wt" && sh -c "$runcmd" ) >"$wt/.demo_patched.log" 2>&1; patched=$?
echo "demo with patch: exit $patched"
if [ $clean -eq 0 ] && [ $patched -ne 0 ] && [ $suite -eq 0 ]; then
  d=/verif/seeded/$name; mkdir -p "$d"
  cp "$src/seeded_patch.diff" "$d/patch.diff"
  rm -rf "$d/demo"; cp -r "$src/seeded_demo" "$d/demo"
  cp "$src/seeded_meta.txt" "$d/agent_meta.txt" 2>/dev/null
  echo "CONFIRMED -> $d"
else
  echo "NOT CONFIRMED (clean=$clean patched=$patched suite=$suite)"; tail -5 "$wt/.demo_clean.log"; exit 4
fi
