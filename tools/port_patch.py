#!/usr/bin/env python3
"""tools/port_patch.py <seeded-or-mutant patch> — re-bases a patch that no longer applies to
/repo HEAD after a fix commit: 3-way apply in a scratch worktree, import conflicts are resolved by
union, other conflicts by taking the patch's side; the old patch is kept as patch.orig.diff."""
import os, re, subprocess, sys, tempfile, shutil
patch = os.path.abspath(sys.argv[1])
wt = tempfile.mkdtemp(prefix="verif-port-", dir="/tmp")
env = dict(os.environ, GOFLAGS="-mod=mod", GOPROXY="off", GOSUMDB="off", GOTOOLCHAIN="local")
def run(*a, **k): return subprocess.run(a, cwd=wt, env=env, capture_output=True, text=True, **k)
subprocess.run(["git", "-C", "/repo", "worktree", "add", "-q", "--detach", wt, "HEAD"], check=True)
def resolve(union_all):
    run("git", "reset", "-q", "--hard"); run("git", "clean", "-fdq")
    run("git", "apply", "--3way", patch)
    files = run("git", "diff", "--name-only", "--diff-filter=U").stdout.split()
    for f in files:
        p = os.path.join(wt, f); out = []; state = None; ours = []; theirs = []
        lines = open(p).read().split("\n")
        for i, l in enumerate(lines):
            if l.startswith("<<<<<<< "): state = "o"; ours = []; theirs = []; start = i; continue
            if l.startswith("=======") and state == "o": state = "t"; continue
            if l.startswith(">>>>>>> ") and state == "t":
                if start < 25 or union_all:
                    seen = []
                    for x in ours + theirs:
                        if x not in seen or x.strip() == "": seen.append(x)
                    out += seen
                else:
                    out += theirs
                state = None; continue
            if state == "o": ours.append(l)
            elif state == "t": theirs.append(l)
            else: out.append(l)
        open(p, "w").write("\n".join(out))
        run("gofmt", "-w", f)
    b = run("go", "build", "./...")
    if b.returncode != 0:
        m = re.findall(r'(\S+\.go):\d+:\d+: "(\w+)" imported and not used', b.stderr)
        for f, imp in m:
            p = os.path.join(wt, f); s = open(p).read(); s = s.replace('\t"%s"\n' % imp, "", 1); open(p, "w").write(s)
        b = run("go", "build", "./...")
    return b

try:
    b = resolve(False)
    if b.returncode != 0:
        # both sides only added something at the same place: keep both
        b = resolve(True)
    if b.returncode != 0:
        print("PORT-FAILED", patch, b.stderr[:800]); sys.exit(1)
    run("git", "add", "-A")
    d = run("git", "diff", "--cached", "HEAD", "--", ".", ":!seeded_demo").stdout
    orig = os.path.join(os.path.dirname(patch), os.path.basename(patch).replace(".diff", ".orig.diff").replace(".patch", ".orig.patch~"))
    if not os.path.exists(orig):
        shutil.copy(patch, orig)
    open(patch, "w").write(d)
    print("PORTED", patch)
    sys.exit(0)
    run("git", "apply", "--3way", patch)
    files = run("git", "diff", "--name-only", "--diff-filter=U").stdout.split()
    for f in files:
        p = os.path.join(wt, f); out = []; state = None; ours = []; theirs = []
        lines = open(p).read().split("\n")
        for i, l in enumerate(lines):
            if l.startswith("<<<<<<< "): state = "o"; ours = []; theirs = []; start = i; continue
            if l.startswith("=======") and state == "o": state = "t"; continue
            if l.startswith(">>>>>>> ") and state == "t":
                if start < 25:  # import block: union
                    seen = []
                    for x in ours + theirs:
                        if x not in seen: seen.append(x)
                    out += seen
                else:
                    out += theirs
                state = None; continue
            if state == "o": ours.append(l)
            elif state == "t": theirs.append(l)
            else: out.append(l)
        open(p, "w").write("\n".join(out))
        run("gofmt", "-w", f)
    b = run("go", "build", "./...")
    if b.returncode != 0:
        m = re.findall(r'(\S+\.go):\d+:\d+: "(\w+)" imported and not used', b.stderr)
        for f, imp in m:
            p = os.path.join(wt, f); s = open(p).read(); s = s.replace('\t"%s"\n' % imp, "", 1); open(p, "w").write(s)
        b = run("go", "build", "./...")
    if b.returncode != 0:
        print("PORT-FAILED", patch, b.stderr[:800]); sys.exit(1)
    run("git", "add", "-A")
    d = run("git", "diff", "--cached", "HEAD", "--", ".", ":!seeded_demo").stdout
    orig = os.path.join(os.path.dirname(patch), os.path.basename(patch).replace(".diff", ".orig.diff").replace(".patch", ".orig.patch~"))
    if not os.path.exists(orig):
        shutil.copy(patch, orig)
    open(patch, "w").write(d)
    print("PORTED", patch)
finally:
    subprocess.run(["git", "-C", "/repo", "worktree", "remove", "--force", wt])
