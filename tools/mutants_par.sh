#!/bin/sh
# tools/mutants_par.sh [tier] [seed] [jobs] — like mutants_all.sh, but runs <jobs> patches at a time.
cd "$(dirname "$0")/.." || exit 2
tier=${1:-quick}
export VERIF_SEED=${2:-1}
jobs=${3:-3}
export GOFLAGS=-mod=mod GOPROXY=off GOSUMDB=off GOTOOLCHAIN=local GOWORK=off
go build -o bin/verif ./cmd/verif || exit 2
one() {
  p=$1; tier=$2
  case "$p" in
    mutants/*) id=$(basename "$p" | cut -c1-3 | tr a-z A-Z);;
    *) id=$(basename "$(dirname "$p")" | cut -c1-3);;
  esac
  out=$(./tools/mutant.sh "$p" "$id" "$tier" 2>&1)
  code=$(echo "$out" | sed -n 's/^RESULT.*exit=\([0-9]*\)$/\1/p' | tail -1)
  class=$(echo "$out" | sed -n 's/^  class=\([^ ]*\).*/\1/p' | head -1)
  if [ "$code" = "1" ]; then echo "CAUGHT  $id $tier $p class=$class"; else echo "MISSED  $id $tier $p exit=$code"; fi
}
if [ "${4:-}" = "--one" ]; then one "$5" "$tier"; exit 0; fi
ls ${MUTANT_GLOB:-mutants/*.patch seeded/*/patch.diff} | xargs -P "$jobs" -I{} sh "$0" "$tier" "$VERIF_SEED" "$jobs" --one {} > mutants_par.out 2>&1
cat mutants_par.out
echo "SUMMARY tier=$tier seed=$VERIF_SEED total=$(grep -c '^CAUGHT\|^MISSED' mutants_par.out) missed=$(grep -c '^MISSED' mutants_par.out)"
! grep -q '^MISSED' mutants_par.out
