#!/bin/sh
# port2.sh <patch>: per-file union merge (git merge-file --union) of a patch made against an older blob
patch=$(readlink -f "$1"); wt=$(mktemp -d /tmp/verif-port2-XXXX)
git -C /repo worktree add -q --detach "$wt" HEAD || exit 2
cd "$wt" || exit 2
ok=1
git apply --3way "$patch" >/dev/null 2>&1
for f in $(git diff --name-only --diff-filter=U); do
  git show :1:"$f" > /tmp/p2.base 2>/dev/null; git show :2:"$f" > /tmp/p2.ours; git show :3:"$f" > /tmp/p2.theirs
  git merge-file -p --union /tmp/p2.ours /tmp/p2.base /tmp/p2.theirs > "$f"
  gofmt -w "$f" 2>/dev/null || ok=0
  git add "$f"
done
export GOFLAGS=-mod=mod GOPROXY=off GOSUMDB=off GOTOOLCHAIN=local
if [ $ok = 1 ] && go build ./... 2>/tmp/p2.err; then
  git add -A; git diff --cached HEAD -- . ':!seeded_demo' > /tmp/p2.out
  [ -f "$(dirname $patch)/patch.orig.diff" ] || cp "$patch" "$(dirname $patch)/patch.orig.diff"
  cp /tmp/p2.out "$patch"; echo "PORTED2 $patch"
else
  echo "PORT2-FAILED $patch"; head -5 /tmp/p2.err
fi
cd /; git -C /repo worktree remove --force "$wt"
