// Package seam rewrites a scratch copy of Go source so that every source of
// nondeterminism the simulator must own goes through package verifsim:
//
//	R1  `range m` over a map            → `range verifsim.Seq2(SITE, m)`
//	R2  mutating functions of package os → the same name in verifsim
//	R4  time.Now / os.Getpid / os.Hostname → verifsim.Now / Getpid / Hostname
//	R3  (generated code only) verifsim.Yield(SITE) before every statement
//
// It never touches /repo: callers hand it a scratch directory.
package seam

import (
	"bytes"
	"fmt"
	"go/ast"
	"go/format"
	"go/token"
	"go/types"
	"os"
	"path/filepath"
	"sort"
	"strings"

	"golang.org/x/tools/go/ast/astutil"
	"golang.org/x/tools/go/packages"
)

const RuntimeImport = "verifsim"

// Site describes one rewritten location.
type Site struct {
	ID   int    `json:"id"`
	Kind string `json:"kind"` // range | disk | ambient | yield
	File string `json:"file"` // relative to the rewritten root
	Line int    `json:"line"`
	What string `json:"what"`
}

type Options struct {
	Dir       string   // module root to load and rewrite in place
	Patterns  []string // default ./...
	Env       []string
	FirstSite int  // first site id to hand out
	Yields    bool // R3
	OnlyFiles map[string]bool
	RelTo     string // paths in Site.File are made relative to this (default Dir)
}

type Result struct {
	Sites []Site
	// Warnings lists nondeterminism sources that are not behind a seam (reported in evidence;
	// a replay that depends on them may not reproduce).
	Warnings []string
	// MapRanges counted by an independent types-walk, to validate R1.
	MapRangesIndependent int
}

var mutatingOS = map[string]bool{
	"WriteFile": true, "MkdirAll": true, "Mkdir": true, "Create": true, "OpenFile": true,
	"Remove": true, "RemoveAll": true, "Rename": true, "Chmod": true, "Chtimes": true,
	"Truncate": true, "Symlink": true, "Link": true, "MkdirTemp": true, "CreateTemp": true,
}

// Rewrite loads the packages under o.Dir with full type information and rewrites the
// files in place.
func Rewrite(o Options) (*Result, error) {
	if len(o.Patterns) == 0 {
		o.Patterns = []string{"./..."}
	}
	if o.RelTo == "" {
		o.RelTo = o.Dir
	}
	cfg := &packages.Config{
		Mode: packages.NeedName | packages.NeedFiles | packages.NeedCompiledGoFiles | packages.NeedSyntax |
			packages.NeedTypes | packages.NeedTypesInfo | packages.NeedImports,
		Dir: o.Dir,
		Env: o.Env,
	}
	pkgs, err := packages.Load(cfg, o.Patterns...)
	if err != nil {
		return nil, fmt.Errorf("seam: load: %w", err)
	}
	sort.Slice(pkgs, func(i, j int) bool { return pkgs[i].PkgPath < pkgs[j].PkgPath })
	res := &Result{}
	next := o.FirstSite
	for _, pkg := range pkgs {
		if len(pkg.Errors) > 0 {
			return nil, fmt.Errorf("seam: package %s has errors: %v", pkg.PkgPath, pkg.Errors[0])
		}
		if pkg.Name == RuntimeImport {
			continue
		}
		type fileEntry struct {
			name string
			f    *ast.File
		}
		var files []fileEntry
		for i, f := range pkg.Syntax {
			files = append(files, fileEntry{pkg.CompiledGoFiles[i], f})
		}
		sort.Slice(files, func(i, j int) bool { return files[i].name < files[j].name })
		for _, fe := range files {
			if o.OnlyFiles != nil && !o.OnlyFiles[fe.name] {
				continue
			}
			if strings.HasSuffix(fe.name, "_test.go") {
				continue
			}
			rel, _ := filepath.Rel(o.RelTo, fe.name)
			changed, err := rewriteFile(pkg, fe.f, rel, &next, res, o.Yields)
			if err != nil {
				return nil, err
			}
			if !changed {
				continue
			}
			var buf bytes.Buffer
			if err := format.Node(&buf, pkg.Fset, fe.f); err != nil {
				return nil, fmt.Errorf("seam: print %s: %w", fe.name, err)
			}
			if err := os.WriteFile(fe.name, buf.Bytes(), 0o644); err != nil {
				return nil, err
			}
		}
	}
	return res, nil
}

func isMap(t types.Type) bool {
	if t == nil {
		return false
	}
	switch u := t.Underlying().(type) {
	case *types.Map:
		return true
	case *types.Interface:
		// type parameter constrained to maps (core type)
		if tp, ok := t.(*types.TypeParam); ok {
			_ = tp
			return coreIsMap(u)
		}
	}
	return false
}

func coreIsMap(i *types.Interface) bool {
	all := true
	n := 0
	for k := 0; k < i.NumEmbeddeds(); k++ {
		switch e := i.EmbeddedType(k).(type) {
		case *types.Union:
			for t := 0; t < e.Len(); t++ {
				n++
				if _, ok := e.Term(t).Type().Underlying().(*types.Map); !ok {
					all = false
				}
			}
		default:
			n++
			if _, ok := e.Underlying().(*types.Map); !ok {
				all = false
			}
		}
	}
	return n > 0 && all
}

func sel(x, name string) *ast.SelectorExpr {
	return &ast.SelectorExpr{X: ast.NewIdent(x), Sel: ast.NewIdent(name)}
}

func rewriteFile(pkg *packages.Package, f *ast.File, rel string, next *int, res *Result, yields bool) (bool, error) {
	info := pkg.TypesInfo
	fset := pkg.Fset
	changed := false
	pos := func(n ast.Node) int { return fset.Position(n.Pos()).Line }
	warn := func(n ast.Node, what string) {
		res.Warnings = append(res.Warnings, fmt.Sprintf("%s:%d: %s", rel, pos(n), what))
	}
	newSite := func(kind string, n ast.Node, what string) int {
		id := *next
		*next = id + 1
		res.Sites = append(res.Sites, Site{ID: id, Kind: kind, File: rel, Line: pos(n), What: what})
		return id
	}

	// independent count for validation
	ast.Inspect(f, func(n ast.Node) bool {
		if r, ok := n.(*ast.RangeStmt); ok {
			if tv, ok := info.Types[r.X]; ok && isMap(tv.Type) {
				res.MapRangesIndependent++
			}
		}
		return true
	})

	hasGo := false
	ioutilRewritten, ioutilStillUsed := false, false
	osStillUsed := false
	timeStillUsed := false
	osImported, timeImported := false, false
	for _, imp := range f.Imports {
		switch strings.Trim(imp.Path.Value, `"`) {
		case "os":
			osImported = true
		case "time":
			timeImported = true
		}
	}

	astutil.Apply(f, func(c *astutil.Cursor) bool {
		switch n := c.Node().(type) {
		case *ast.RangeStmt:
			if tv, ok := info.Types[n.X]; ok && isMap(tv.Type) {
				id := newSite("range", n, types.ExprString(n.X))
				n.X = &ast.CallExpr{
					Fun:  sel(RuntimeImport, "Seq2"),
					Args: []ast.Expr{&ast.BasicLit{Kind: token.INT, Value: fmt.Sprint(id)}, n.X},
				}
				changed = true
			}
		case *ast.SelectorExpr:
			obj := info.Uses[n.Sel]
			if obj == nil || obj.Pkg() == nil {
				return true
			}
			id, isIdent := n.X.(*ast.Ident)
			if !isIdent {
				// method values on sync.Map, reflect.Value …
				if fn, ok := obj.(*types.Func); ok {
					full := fn.FullName()
					switch full {
					case "(reflect.Value).MapKeys", "(reflect.Value).MapRange", "(*reflect.MapIter).Next":
						warn(n, "unseamed map iteration via "+full)
					case "(*sync.Map).Range":
						warn(n, "unseamed sync.Map.Range")
					}
				}
				return true
			}
			if _, isPkg := info.Uses[id].(*types.PkgName); !isPkg {
				return true
			}
			path, name := obj.Pkg().Path(), obj.Name()
			switch {
			case path == "os" && mutatingOS[name]:
				if _, ok := obj.(*types.Func); ok {
					newSite("disk", n, "os."+name)
					n.X = ast.NewIdent(RuntimeImport)
					changed = true
					return true
				}
			case path == "io/ioutil" && (name == "WriteFile" || name == "TempDir" || name == "TempFile"):
				if _, ok := obj.(*types.Func); ok {
					newSite("disk", n, "ioutil."+name)
					n.X = ast.NewIdent(RuntimeImport)
					n.Sel = ast.NewIdent(map[string]string{"WriteFile": "WriteFile", "TempDir": "MkdirTemp", "TempFile": "CreateTemp"}[name])
					changed = true
					ioutilRewritten = true
					return true
				}
			case path == "io/ioutil":
				ioutilStillUsed = true
			case path == "os" && (name == "Getpid" || name == "Hostname"):
				newSite("ambient", n, "os."+name)
				n.X = ast.NewIdent(RuntimeImport)
				changed = true
				return true
			case path == "time" && name == "Now":
				newSite("ambient", n, "time.Now")
				n.X = ast.NewIdent(RuntimeImport)
				changed = true
				return true
			case path == "math/rand" || path == "math/rand/v2" || path == "crypto/rand":
				if _, ok := obj.(*types.Func); ok {
					warn(n, "unseamed randomness "+path+"."+name)
				}
			case path == "maps" && (name == "Keys" || name == "Values" || name == "All"):
				warn(n, "unseamed map iteration via maps."+name)
			case path == "os" && (name == "Getenv" || name == "LookupEnv" || name == "Environ"):
				warn(n, "reads process environment via os."+name)
			}
			if path == "os" {
				osStillUsed = true
			}
			if path == "time" {
				timeStillUsed = true
			}
		}
		return true
	}, func(c *astutil.Cursor) bool {
		switch n := c.Node().(type) {
		case *ast.GoStmt:
			// R5: go f(x) → verifsim.Go(SITE, func() { f(x) })  (arguments are evaluated when
			// the function runs, not at the go statement — documented deviation)
			id := newSite("go", n, types.ExprString(n.Call.Fun))
			c.Replace(&ast.ExprStmt{X: &ast.CallExpr{
				Fun: sel(RuntimeImport, "Go"),
				Args: []ast.Expr{
					&ast.BasicLit{Kind: token.INT, Value: fmt.Sprint(id)},
					&ast.FuncLit{Type: &ast.FuncType{Params: &ast.FieldList{}}, Body: &ast.BlockStmt{List: []ast.Stmt{&ast.ExprStmt{X: n.Call}}}},
				},
			}})
			changed = true
			hasGo = true
		}
		return true
	})

	if yields {
		if insertYields(f, next, res, rel, fset) {
			changed = true
		}
	}
	if insertJoins(f, info) {
		changed = true
	}
	_ = hasGo

	if changed {
		astutil.AddImport(fset, f, RuntimeImport)
		if osImported && !osStillUsed && !usesPkgOtherwise(f, info, "os") {
			astutil.DeleteImport(fset, f, "os")
		}
		if timeImported && !timeStillUsed && !usesPkgOtherwise(f, info, "time") {
			astutil.DeleteImport(fset, f, "time")
		}
		if ioutilRewritten && !ioutilStillUsed && !usesPkgOtherwise(f, info, "io/ioutil") {
			astutil.DeleteImport(fset, f, "io/ioutil")
		}
	}
	return changed, nil
}

// usesPkgOtherwise reports whether any identifier in f still refers to the imported
// package with the given path (after rewriting).
func usesPkgOtherwise(f *ast.File, info *types.Info, path string) bool {
	used := false
	ast.Inspect(f, func(n ast.Node) bool {
		if id, ok := n.(*ast.Ident); ok {
			if pn, ok := info.Uses[id].(*types.PkgName); ok && pn.Imported().Path() == path {
				used = true
			}
		}
		return !used
	})
	return used
}

// insertYields puts `verifsim.Yield(SITE)` before every statement of every block of every
// function body (R3). Statement order and control flow are untouched.
func insertYields(f *ast.File, next *int, res *Result, rel string, fset *token.FileSet) bool {
	changed := false
	yield := func(at ast.Node) ast.Stmt {
		id := *next
		*next = id + 1
		res.Sites = append(res.Sites, Site{ID: id, Kind: "yield", File: rel, Line: fset.Position(at.Pos()).Line})
		return &ast.ExprStmt{X: &ast.CallExpr{
			Fun:  sel(RuntimeImport, "Yield"),
			Args: []ast.Expr{&ast.BasicLit{Kind: token.INT, Value: fmt.Sprint(id)}},
		}}
	}
	var doList func(list []ast.Stmt) []ast.Stmt
	doList = func(list []ast.Stmt) []ast.Stmt {
		out := make([]ast.Stmt, 0, 2*len(list))
		for _, s := range list {
			if _, isLabel := s.(*ast.LabeledStmt); !isLabel {
				out = append(out, yield(s))
				changed = true
			}
			out = append(out, s)
		}
		return out
	}
	clauseBodies := map[*ast.BlockStmt]bool{} // bodies of switch/select hold clauses, not statements
	ast.Inspect(f, func(n ast.Node) bool {
		switch b := n.(type) {
		case *ast.SwitchStmt:
			clauseBodies[b.Body] = true
		case *ast.TypeSwitchStmt:
			clauseBodies[b.Body] = true
		case *ast.SelectStmt:
			clauseBodies[b.Body] = true
		case *ast.BlockStmt:
			if !clauseBodies[b] {
				b.List = doList(b.List)
			}
		case *ast.CaseClause:
			b.Body = doList(b.Body)
		case *ast.CommClause:
			b.Body = doList(b.Body)
		}
		return true
	})
	return changed
}

// needsJoin: does the statement (outside nested function literals) wait for goroutines —
// WaitGroup/errgroup Wait, a channel receive, a range over a channel, or a select?
func needsJoin(s ast.Stmt, info *types.Info) bool {
	found := false
	ast.Inspect(s, func(n ast.Node) bool {
		if found {
			return false
		}
		switch x := n.(type) {
		case *ast.FuncLit:
			return false
		case *ast.BlockStmt:
			// nested blocks are handled on their own statement lists
			if ast.Node(x) != ast.Node(s) {
				return false
			}
		case *ast.SelectStmt:
			found = true
		case *ast.UnaryExpr:
			if x.Op == token.ARROW {
				found = true
			}
		case *ast.RangeStmt:
			if tv, ok := info.Types[x.X]; ok && tv.Type != nil {
				if _, isChan := tv.Type.Underlying().(*types.Chan); isChan {
					found = true
				}
			}
			return false
		case *ast.CallExpr:
			if se, ok := x.Fun.(*ast.SelectorExpr); ok {
				if fn, ok := info.Uses[se.Sel].(*types.Func); ok {
					switch fn.FullName() {
					case "(*sync.WaitGroup).Wait", "(*golang.org/x/sync/errgroup.Group).Wait":
						found = true
					}
				}
			}
		}
		return true
	})
	return found
}

// insertJoins puts verifsim.Join() before every statement that may wait for goroutines.
func insertJoins(f *ast.File, info *types.Info) bool {
	changed := false
	join := func() ast.Stmt {
		return &ast.ExprStmt{X: &ast.CallExpr{Fun: sel(RuntimeImport, "Join")}}
	}
	doList := func(list []ast.Stmt) []ast.Stmt {
		var out []ast.Stmt
		for _, s := range list {
			switch s.(type) {
			case *ast.IfStmt, *ast.ForStmt, *ast.SwitchStmt, *ast.TypeSwitchStmt, *ast.BlockStmt, *ast.LabeledStmt:
				// compound statements: only their header expressions count here
				hdr := false
				switch x := s.(type) {
				case *ast.IfStmt:
					hdr = (x.Init != nil && needsJoin(x.Init, info)) || needsJoin(&ast.ExprStmt{X: x.Cond}, info)
				case *ast.ForStmt:
					hdr = x.Init != nil && needsJoin(x.Init, info)
				}
				if hdr {
					out = append(out, join())
					changed = true
				}
			default:
				if needsJoin(s, info) {
					out = append(out, join())
					changed = true
				}
			}
			out = append(out, s)
		}
		return out
	}
	clauseBodies := map[*ast.BlockStmt]bool{} // bodies of switch/select hold clauses, not statements
	ast.Inspect(f, func(n ast.Node) bool {
		switch b := n.(type) {
		case *ast.SwitchStmt:
			clauseBodies[b.Body] = true
		case *ast.TypeSwitchStmt:
			clauseBodies[b.Body] = true
		case *ast.SelectStmt:
			clauseBodies[b.Body] = true
		case *ast.BlockStmt:
			if !clauseBodies[b] {
				b.List = doList(b.List)
			}
		case *ast.CaseClause:
			b.Body = doList(b.Body)
		case *ast.CommClause:
			b.Body = doList(b.Body)
		}
		return true
	})
	return changed
}
