// Package node builds the system under test from /repo's current working tree: an
// unmodified goverter binary, and the "node" — the same sources with the simulator's seams
// inserted (package seam) — both in a scratch directory outside /repo and /verif.
package node

import (
	"bytes"
	"encoding/json"
	"fmt"
	"io"
	"io/fs"
	"os"
	"os/exec"
	"path/filepath"
	"strings"

	"verif/internal/rt"
	"verif/internal/seam"
)

// BuildError marks infrastructure trouble (exit 2, never a VIOLATION).
type BuildError struct{ Msg string }

func (e *BuildError) Error() string { return e.Msg }

func berr(format string, a ...any) error { return &BuildError{Msg: fmt.Sprintf(format, a...)} }

type Node struct {
	Scratch      string // root of everything this build created
	SrcDir       string // rewritten goverter sources
	OrigBin      string // unmodified goverter
	SimBin       string // rewritten goverter
	SimCustomBin string // rewritten goverter behind a custom main (cli.Run with an extra enum transformer)
	Sites        []seam.Site
	Warnings     []string
	RepoDir      string
	RepoHash     string
	MapRanges    int
}

func GoEnv() []string {
	env := os.Environ()
	out := env[:0:0]
	for _, e := range env {
		if strings.HasPrefix(e, "GOFLAGS=") || strings.HasPrefix(e, "GOPROXY=") || strings.HasPrefix(e, "GOSUMDB=") ||
			strings.HasPrefix(e, "GOTOOLCHAIN=") || strings.HasPrefix(e, "VERIF_PLAN=") || strings.HasPrefix(e, "VERIF_LOG=") ||
			strings.HasPrefix(e, "GOWORK=") {
			continue
		}
		out = append(out, e)
	}
	return append(out, "GOFLAGS=-mod=mod", "GOPROXY=off", "GOSUMDB=off", "GOTOOLCHAIN=local", "GOWORK=off")
}

func run(dir string, name string, args ...string) error {
	cmd := exec.Command(name, args...)
	cmd.Dir = dir
	cmd.Env = GoEnv()
	var out bytes.Buffer
	cmd.Stdout = &out
	cmd.Stderr = &out
	if err := cmd.Run(); err != nil {
		return berr("%s %s (in %s): %v\n%s", name, strings.Join(args, " "), dir, err, out.String())
	}
	return nil
}

var skipDirs = map[string]bool{".git": true, "docs": true, "execution": true, "example": true, "scenario": true, ".github": true}

// CopyTree copies the Go sources of a module (no tests), go.mod and go.sum.
func CopyTree(src, dst string, skipTop map[string]bool) error {
	return filepath.WalkDir(src, func(p string, d fs.DirEntry, err error) error {
		if err != nil {
			return err
		}
		rel, _ := filepath.Rel(src, p)
		if rel == "." {
			return os.MkdirAll(dst, 0o755)
		}
		top := strings.Split(rel, string(filepath.Separator))[0]
		if skipTop[top] {
			if d.IsDir() {
				return filepath.SkipDir
			}
			return nil
		}
		if d.IsDir() {
			return os.MkdirAll(filepath.Join(dst, rel), 0o755)
		}
		name := d.Name()
		if !(strings.HasSuffix(name, ".go") && !strings.HasSuffix(name, "_test.go")) && name != "go.mod" && name != "go.sum" {
			return nil
		}
		return copyFile(p, filepath.Join(dst, rel))
	})
}

func copyFile(src, dst string) error {
	in, err := os.Open(src)
	if err != nil {
		return err
	}
	defer in.Close()
	out, err := os.OpenFile(dst, os.O_CREATE|os.O_WRONLY|os.O_TRUNC, 0o644)
	if err != nil {
		return err
	}
	if _, err := io.Copy(out, in); err != nil {
		out.Close()
		return err
	}
	return out.Close()
}

// ScratchRoot returns the base directory for scratch data.
func ScratchRoot() string {
	if s := os.Getenv("VERIF_SCRATCH"); s != "" {
		return s
	}
	if s := os.Getenv("TMPDIR"); s != "" {
		return s
	}
	return "/tmp"
}

func jenniferDir() (string, error) {
	cmd := exec.Command("go", "env", "GOMODCACHE")
	cmd.Env = GoEnv()
	b, err := cmd.Output()
	if err != nil {
		return "", berr("go env GOMODCACHE: %v", err)
	}
	d := filepath.Join(strings.TrimSpace(string(b)), "github.com/dave/jennifer@v1.6.0")
	if _, err := os.Stat(d); err != nil {
		return "", berr("jennifer v1.6.0 not in module cache: %v", err)
	}
	return d, nil
}

// Build creates the scratch directory and both binaries. Caller must call Close.
func Build(repo string) (*Node, error) {
	scratch, err := os.MkdirTemp(ScratchRoot(), "verif-node-")
	if err != nil {
		return nil, berr("scratch: %v", err)
	}
	n := &Node{Scratch: scratch, RepoDir: repo}
	ok := false
	defer func() {
		if !ok {
			n.Close()
		}
	}()
	src := filepath.Join(scratch, "goverter")
	n.SrcDir = src
	if err := CopyTree(repo, src, skipDirs); err != nil {
		return nil, berr("copy repo: %v", err)
	}
	// a customised CLI: the documented way to add enum transformers (example/enum/transform-custom)
	custom := filepath.Join(src, "cmd", "goverter-custom")
	if err := os.MkdirAll(custom, 0o755); err != nil {
		return nil, berr("custom cli: %v", err)
	}
	if err := os.WriteFile(filepath.Join(custom, "main.go"), []byte(customMain), 0o644); err != nil {
		return nil, berr("custom cli: %v", err)
	}
	bin := filepath.Join(scratch, "bin")
	_ = os.MkdirAll(bin, 0o755)
	n.OrigBin = filepath.Join(bin, "goverter-orig")
	n.SimBin = filepath.Join(bin, "goverter-sim")
	if err := run(src, "go", "build", "-trimpath", "-o", n.OrigBin, "./cmd/goverter"); err != nil {
		return nil, err
	}

	jsrc, err := jenniferDir()
	if err != nil {
		return nil, err
	}
	jdst := filepath.Join(scratch, "jennifer")
	if err := CopyTree(jsrc, jdst, map[string]bool{"genjen": true, "gennames": true}); err != nil {
		return nil, berr("copy jennifer: %v", err)
	}
	if err := rt.WriteRuntime(filepath.Join(scratch, "verifsim")); err != nil {
		return nil, berr("runtime: %v", err)
	}
	// go.mod edits
	gm, err := os.ReadFile(filepath.Join(src, "go.mod"))
	if err != nil {
		return nil, berr("go.mod: %v", err)
	}
	lines := strings.Split(string(gm), "\n")
	for i, l := range lines {
		if strings.HasPrefix(l, "go ") {
			lines[i] = "go 1.23"
		}
		if strings.HasPrefix(l, "toolchain ") {
			lines[i] = ""
		}
	}
	mod := strings.Join(lines, "\n") + "\nrequire verifsim v0.0.0\nreplace verifsim => ../verifsim\nreplace github.com/dave/jennifer => ../jennifer\n"
	if err := os.WriteFile(filepath.Join(src, "go.mod"), []byte(mod), 0o644); err != nil {
		return nil, berr("go.mod: %v", err)
	}
	jm := "module github.com/dave/jennifer\n\ngo 1.23\n\nrequire verifsim v0.0.0\nreplace verifsim => ../verifsim\n"
	if err := os.WriteFile(filepath.Join(jdst, "go.mod"), []byte(jm), 0o644); err != nil {
		return nil, berr("jennifer go.mod: %v", err)
	}

	r1, err := seam.Rewrite(seam.Options{Dir: src, Env: GoEnv(), FirstSite: 0, RelTo: src})
	if err != nil {
		return nil, berr("%v", err)
	}
	next := 0
	for _, s := range r1.Sites {
		if s.ID >= next {
			next = s.ID + 1
		}
	}
	r2, err := seam.Rewrite(seam.Options{Dir: jdst, Patterns: []string{"./jen"}, Env: GoEnv(), FirstSite: next, RelTo: scratch})
	if err != nil {
		return nil, berr("%v", err)
	}
	n.Sites = append(r1.Sites, r2.Sites...)
	n.Warnings = append(r1.Warnings, r2.Warnings...)
	n.MapRanges = r1.MapRangesIndependent + r2.MapRangesIndependent
	nr := 0
	for _, s := range n.Sites {
		if s.Kind == "range" {
			nr++
		}
	}
	if nr != n.MapRanges {
		return nil, berr("seam validation: %d range sites rewritten, independent count %d", nr, n.MapRanges)
	}
	if err := run(src, "go", "build", "-trimpath", "-o", n.SimBin, "./cmd/goverter"); err != nil {
		return nil, err
	}
	n.SimCustomBin = filepath.Join(bin, "goverter-sim-custom")
	if err := run(src, "go", "build", "-trimpath", "-o", n.SimCustomBin, "./cmd/goverter-custom"); err != nil {
		return nil, err
	}
	sb, _ := json.MarshalIndent(n.Sites, "", " ")
	_ = os.WriteFile(filepath.Join(scratch, "sites.json"), sb, 0o644)
	ok = true
	return n, nil
}

func (n *Node) Close() {
	if n != nil && n.Scratch != "" && os.Getenv("VERIF_KEEP") == "" {
		_ = os.RemoveAll(n.Scratch)
	}
}

// SiteName renders a site id as kind@file:line.
func (n *Node) SiteName(id int) string {
	for _, s := range n.Sites {
		if s.ID == id {
			return fmt.Sprintf("%s:%d(%s)", s.File, s.Line, s.What)
		}
	}
	return fmt.Sprintf("site#%d", id)
}

// RangeSites lists the ids of the map-range sites.
func (n *Node) RangeSites() []int {
	var out []int
	for _, s := range n.Sites {
		if s.Kind == "range" {
			out = append(out, s.ID)
		}
	}
	return out
}

// HasKind reports whether any rewritten site has the given kind.
func (n *Node) HasKind(kind string) bool {
	for _, s := range n.Sites {
		if s.Kind == kind {
			return true
		}
	}
	return false
}

const customMain = `package main

import (
	"os"
	"strings"

	"github.com/jmattheis/goverter/cli"
	"github.com/jmattheis/goverter/enum"
)

func main() {
	cli.Run(os.Args, cli.RunOpts{EnumTransformers: map[string]enum.Transformer{"trim-prefix": trimPrefix}})
}

func trimPrefix(ctx enum.TransformContext) (map[string]string, error) {
	m := map[string]string{}
	for key := range ctx.Source.Members {
		targetKey := strings.TrimPrefix(key, ctx.Config)
		if _, ok := ctx.Target.Members[targetKey]; ok {
			m[key] = targetKey
		}
	}
	return m, nil
}
`
