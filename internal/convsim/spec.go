package convsim

import (
	"fmt"
	"math/rand/v2"
	"sort"
	"strings"
)

// A world's type universe is one shape forest from which a source side (S…) and a target
// side (T…) are rendered: the target is a renamed copy of the source with optional T→*U
// insertions and — for C07 — renamed fields and leaf types that only a fallible custom
// function can convert.

type node struct {
	// Getter (C04): the source struct has an accessor method Get<ID>() that returns one of
	// its own reference-typed fields (field index GetterField); the target gets an extra field
	// Got<ID> filled from it (`goverter:map Get<ID> Got<ID>`). Not a goverter custom function:
	// the result must still be deep-copied.
	Getter      bool
	GetterField int
	// MethodSrc (C07): the source struct has a fallible method Calc<ID>() that feeds the
	// target field Calc<ID>. Ctor (C07): the struct's method uses goverter:default with a
	// fallible constructor taking the source. Both need an ID field for fault keys.
	MethodSrc bool
	// MethodSrcFunc: the source method additionally feeds a fallible map|FUNC function
	// (`goverter:map Calc<ID> Calc<ID> | MapCalc<ID>`): two fallible calls for one field.
	MethodSrcFunc bool
	Ctor          bool
	Kind          string // basic | nbasic | struct | ptr | slice | map | ustruct | ref | leaf
	Basic         string
	ID            int // named things: struct / nbasic / leaf id; ref: id of the struct referred to
	Key           *node
	Elem          *node
	Fields        []*field
}

type field struct {
	// TOnly + MapPath: the field exists on the target side only and is filled through
	// `goverter:map <MapPath> <TName>` (a dotted source path through a nil-able pointer).
	TOnly   bool
	MapPath string
	// Optional: a shape goverter may not support on the tree under test (arrays as targets);
	// if goverter refuses the world it is rebuilt without the optional fields.
	Optional bool
	OptKind  string // which optional shape: "array" | "any"
	Name     string // source field name
	TName    string // target field name (C07 renames)
	N        *node
	// Embed: the field is an embedded struct (or pointer to struct); its name is the type name
	// on each side (S<id> / T<id>), mapped with goverter:map.
	Embed bool
	// SOnly: the field exists on the source side only (kind "sonly": a nested struct whose
	// fields goverter:autoMap lifts into the enclosing target). AutoFrom marks the target-only
	// fields that are filled from it (no goverter:map line).
	SOnly    bool
	AutoFrom string
	// CaseOnly: source and target names differ in case only; matched by goverter:matchIgnoreCase
	// (no goverter:map line).
	CaseOnly bool
	PtrOnT   bool   // source T, target *T
	MapFunc  string // C07: goverter:map F | Func on the enclosing struct's method
}

type leafInfo struct {
	ID   int
	Mode string // extend | extendconv | mapfunc
	Fn   string
}

type Spec struct {
	Seed     uint64
	Prop     string // C04 | C07
	Roots    []*node
	Structs  map[int]*node // named structs by id
	NBasics  map[int]string
	Leaves   map[int]*leafInfo
	Format   string // struct | function | variables
	SkipCopy bool
	Wrap     string // none | wrapErrors | wrapErrorsUsing
	KeyLeaf  bool
	// swarm-style per-world knobs
	W [12]int // weights: leaf, basic, nbasic, struct, ptr, slice, map, ustruct, ref, enum, tptr, sptr
	// Aliases: container/pointer field types that are spelled alike on both sides are declared
	// through type aliases (type AL3 = map[string]string), and goverter runs with
	// GODEBUG=gotypesalias=1 (what `go run github.com/jmattheis/goverter/cmd/goverter` from a
	// go >= 1.23 module gives): go/types then hands out *types.Alias nodes.
	Aliases    bool
	aliasOf    map[string]string
	aliasOrder []string
	// TypedErrLeaf: optional shape (goverter refuses it today): the extend function of this leaf
	// returns a concrete error type (*verifsim.InjectedError) instead of error, and a declared
	// method has exactly its signature (goverter then delegates to the function). 0 = none.
	TypedErrLeaf int
	// MatchIgnoreCase: goverter:matchIgnoreCase on the converter (C07 worlds); some fields are
	// then spelled differently on the two sides.
	MatchIgnoreCase bool
	// Ctx (C07 worlds): every declared method carries two context arguments (`ctxA *CtxA,
	// ctxB CtxB`, selected by goverter:arg:context:regex) and some fallible extend functions
	// take one or both of them, in varying positions; the functions check the values they get.
	// Drawn from a hash of the seed, not from the spec's PRNG, so that all other draws of a
	// world stay what they were before this knob existed.
	Ctx bool
	// UseUnderlying: goverter:useUnderlyingTypeMethods on the converter (C04 worlds; there is
	// no method it could select, so the generated conversions must stay deep copies).
	UseUnderlying bool
	UseZero       bool         // goverter:useZeroValueOnPointerInconsistency (enables *T -> T positions)
	UpdRoot       map[int]bool // roots that also get an update-signature method
	// UpdPtrRoot (C04, converter-level skipCopySameType, struct format): roots that get an
	// update-signature method whose SOURCE is a pointer (`UpdP3(source *S3, target *T3)`);
	// those roots carry direct T -> *T fields around identical unnamed composites.
	UpdPtrRoot map[int]bool
	UPlainPct     int          // chance that an unnamed struct has only basic fields (identical on both sides)
	IgnoreMissing bool
	AutoMethodSrc bool
	Enums         map[int]int // enum id → member count
	ULeafPct      int         // C07: chance that a field of an unnamed struct is a fallible leaf
	UFieldsMax    int
	// SkipCopyMode (C04): none | converter | methods (method-level setting on a subset)
	SkipCopyMode string
	MethodSkip   map[string]bool
	// MethodWrapOff (C07, wrapErrors worlds): methods carrying `goverter:wrapErrors no`; the
	// location oracle is skipped for them (what their own segment contributes is unspecified),
	// all other methods keep the converter-level setting and the full oracle.
	MethodWrapOff map[string]bool
	Shared        map[int]*node // named structs used identically on both sides
	NConts        map[int]*node // named container on ONE side, its unnamed form on the other
	// BLeaves: id → extend function of a fallible leaf between NAMED BASIC types
	// (SBl<id> int → TBl<id> int, possibly into a pointer target), keyed by the value.
	BLeaves map[int]string
	// SelfRefs: id → "slice" | "map": a named type that refers to itself (type Rec3 []Rec3),
	// the same type on both sides.
	SelfRefs    map[int]string
	Unexported  bool // some shared struct carries unexported fields → goverter:ignoreUnexported
	HasOptional bool
	PtrRoot     map[int]bool
	nextID      int
	rng         *rand.Rand
	maxDepth    int
	structsAt   []int
}

var basics = []string{"int", "int64", "string", "bool", "float64", "uint8", "int32"}

func NewSpec(seed uint64, prop string) *Spec {
	s := &Spec{Seed: seed, Prop: prop, Structs: map[int]*node{}, NBasics: map[int]string{}, Leaves: map[int]*leafInfo{},
		rng: rand.New(rand.NewPCG(seed, 0x5eed)), maxDepth: 4}
	r := s.rng
	s.Format = []string{"struct", "struct", "function", "variables"}[r.IntN(4)]
	base := [12]int{0, 20, 6, 16, 12, 12, 10, 3, 3, 0, 4, 0}
	s.UseZero = r.IntN(3) == 0
	if s.UseZero {
		base[11] = 5
	}
	s.UpdRoot = map[int]bool{}
	if prop == "C04" {
		base[9] = 6
	}
	s.Enums = map[int]int{}
	if prop == "C07" {
		base[0] = 18
	}
	mult := []int{1, 2, 2, 2, 4, 8}
	for i := range base {
		s.W[i] = base[i] * mult[r.IntN(len(mult))]
	}
	s.ULeafPct = []int{20, 50, 80}[r.IntN(3)]
	s.UPlainPct = []int{0, 30, 70}[r.IntN(3)]
	s.IgnoreMissing = r.IntN(2) == 0
	s.AutoMethodSrc = r.IntN(2) == 0
	s.UFieldsMax = 2 + r.IntN(3)
	s.maxDepth = 3 + r.IntN(3)
	s.UseUnderlying = prop == "C04" && r.IntN(3) == 0
	s.Aliases = r.IntN(3) == 0
	s.MatchIgnoreCase = prop == "C07" && r.IntN(3) == 0
	s.Ctx = prop == "C07" && ctxHash(seed, 0)%3 == 0
	s.Shared = map[int]*node{}
	s.NConts = map[int]*node{}
	s.SelfRefs = map[int]string{}
	s.BLeaves = map[int]string{}
	s.SkipCopyMode = "none"
	if prop == "C04" {
		switch r.IntN(6) {
		case 0:
			s.SkipCopyMode = "converter"
			s.SkipCopy = true
		case 1, 2:
			s.SkipCopyMode = "methods"
		}
	} else {
		s.Wrap = []string{"none", "wrapErrors", "wrapErrorsUsing"}[r.IntN(3)]
	}
	nRoots := 1 + r.IntN(2)
	s.PtrRoot = map[int]bool{}
	for i := 0; i < nRoots; i++ {
		root := s.genStruct(0)
		s.Roots = append(s.Roots, root)
		s.PtrRoot[root.ID] = r.IntN(3) == 0
		s.UpdRoot[root.ID] = s.Format == "struct" && r.IntN(3) == 0
	}
	if prop == "C07" && r.IntN(2) == 0 {
		// a chain of unnamed containers (all converted inline, inside one generated method)
		// ending in an unnamed struct with several fallible fields: long location paths
		root := s.Roots[r.IntN(len(s.Roots))]
		root.Fields = append(root.Fields, s.mkField(len(root.Fields), s.genChain(1+r.IntN(12)), root))
	}
	if prop == "C07" {
		// directly nested unnamed lists converted inside ONE generated method, the fallible
		// element being set at an index below an index (and below a key)
		root := s.Roots[r.IntN(len(s.Roots))]
		sl := func(e *node) *node { return &node{Kind: "slice", Elem: e} }
		var n *node
		switch r.IntN(3) {
		case 0:
			n = sl(sl(s.leafNoMap()))
		case 1:
			n = sl(sl(sl(s.leafNoMap())))
		default:
			n = &node{Kind: "map", Key: &node{Kind: "basic", Basic: "string"}, Elem: sl(sl(s.leafNoMap()))}
		}
		root.Fields = append(root.Fields, s.mkField(len(root.Fields), n, root))
	}
	if prop == "C04" && r.IntN(2) == 0 {
		// shapes the builders treat specially: T → *T around an identical unnamed struct of
		// basic fields, in field / slice-element / map-value position, reached through a
		// pointer method as well
		root := s.Roots[r.IntN(len(s.Roots))]
		s.PtrRoot[root.ID] = true
		plain := func() *node {
			n := &node{Kind: "ustruct"}
			for i := 0; i < 2+r.IntN(2); i++ {
				n.Fields = append(n.Fields, &field{Name: fmt.Sprintf("P%d", i), TName: fmt.Sprintf("P%d", i), N: &node{Kind: "basic", Basic: basics[r.IntN(len(basics))]}})
			}
			return n
		}
		var sp *node
		switch r.IntN(6) {
		case 4, 5:
			// identical unnamed struct whose direct fields are plain values but which holds a
			// named struct (same type on both sides) with pointer/slice/map fields
			sh := s.genShared(1)
			us := &node{Kind: "ustruct", Fields: []*field{
				{Name: "ID", TName: "ID", N: &node{Kind: "basic", Basic: "int"}},
				{Name: "Meta", TName: "Meta", N: sh},
			}}
			if r.IntN(2) == 0 {
				sp = &node{Kind: "map", Key: &node{Kind: "basic", Basic: "string"}, Elem: us}
			} else {
				sp = &node{Kind: "slice", Elem: us}
			}
		case 0:
			sp = &node{Kind: "tptr", Elem: plain()}
		case 1:
			sp = &node{Kind: "slice", Elem: &node{Kind: "tptr", Elem: plain()}}
		case 2:
			sp = &node{Kind: "map", Key: &node{Kind: "basic", Basic: "string"}, Elem: &node{Kind: "tptr", Elem: plain()}}
		default:
			sp = &node{Kind: "slice", Elem: &node{Kind: "slice", Elem: &node{Kind: "tptr", Elem: &node{Kind: "basic", Basic: "int"}}}}
		}
		root.Fields = append(root.Fields, &field{Name: fmt.Sprintf("F%d", len(root.Fields)), TName: fmt.Sprintf("F%d", len(root.Fields)), N: sp})
	}
	if prop == "C04" && s.Aliases {
		// a named struct, identical on both sides and with exported fields only, whose every
		// reference (slice, map, pointer) is spelled through a type alias, as element of a
		// slice and value of a map: an analysis that forgets types.Unalias sees plain values
		sh := &node{Kind: "shared", ID: s.id()}
		s.Shared[sh.ID] = sh
		for i, fn := range []*node{
			{Kind: "basic", Basic: "string"},
			{Kind: "slice", Elem: &node{Kind: "basic", Basic: "int"}},
			{Kind: "map", Key: &node{Kind: "basic", Basic: "string"}, Elem: &node{Kind: "basic", Basic: "string"}},
			{Kind: "ptr", Elem: &node{Kind: "basic", Basic: "int"}},
		} {
			sh.Fields = append(sh.Fields, &field{Name: fmt.Sprintf("H%d", i), TName: fmt.Sprintf("H%d", i), N: fn})
		}
		root := s.Roots[0]
		root.Fields = append(root.Fields,
			&field{Name: fmt.Sprintf("F%d", len(root.Fields)), TName: fmt.Sprintf("F%d", len(root.Fields)), N: &node{Kind: "slice", Elem: sh}},
			&field{Name: fmt.Sprintf("F%d", len(root.Fields)+1), TName: fmt.Sprintf("F%d", len(root.Fields)+1), N: &node{Kind: "map", Key: &node{Kind: "basic", Basic: "string"}, Elem: sh}})
	}
	if prop == "C04" && s.UseZero {
		// *T -> T (useZeroValueOnPointerInconsistency) where T is one named struct on both
		// sides whose references sit two struct levels down: a shortcut that only looks at the
		// direct fields of T would dereference instead of copying
		inner := &node{Kind: "shared", ID: s.id()}
		s.Shared[inner.ID] = inner
		inner.Fields = append(inner.Fields,
			&field{Name: "H0", TName: "H0", N: &node{Kind: "slice", Elem: &node{Kind: "basic", Basic: "string"}}},
			&field{Name: "H1", TName: "H1", N: &node{Kind: "map", Key: &node{Kind: "basic", Basic: "string"}, Elem: &node{Kind: "basic", Basic: "int"}}})
		mid := &node{Kind: "shared", ID: s.id()}
		s.Shared[mid.ID] = mid
		mid.Fields = append(mid.Fields,
			&field{Name: "H0", TName: "H0", N: &node{Kind: "basic", Basic: "int"}},
			&field{Name: "H1", TName: "H1", N: inner})
		outer := &node{Kind: "shared", ID: s.id()}
		s.Shared[outer.ID] = outer
		outer.Fields = append(outer.Fields,
			&field{Name: "H0", TName: "H0", N: &node{Kind: "basic", Basic: "string"}},
			&field{Name: "H1", TName: "H1", N: mid})
		root := s.Roots[0]
		root.Fields = append(root.Fields,
			&field{Name: fmt.Sprintf("F%d", len(root.Fields)), TName: fmt.Sprintf("F%d", len(root.Fields)), N: &node{Kind: "sptr", Elem: outer}},
			&field{Name: fmt.Sprintf("F%d", len(root.Fields)+1), TName: fmt.Sprintf("F%d", len(root.Fields)+1), N: &node{Kind: "slice", Elem: &node{Kind: "sptr", Elem: mid}}})
	}
	if prop == "C04" && s.SkipCopy {
		// converter-level skipCopySameType: positions whose types are NOT identical although
		// they look alike must always be present (named vs unnamed container, T vs *T)
		root := s.Roots[0]
		for _, side := range []string{"S", "T"} {
			nc := &node{Kind: "ncont", ID: s.id(), Basic: side, Elem: &node{Kind: "slice", Elem: &node{Kind: "basic", Basic: "string"}}}
			s.NConts[nc.ID] = nc
			root.Fields = append(root.Fields, &field{Name: fmt.Sprintf("F%d", len(root.Fields)), TName: fmt.Sprintf("F%d", len(root.Fields)), N: nc})
		}
		pl := &node{Kind: "ustruct", Fields: []*field{{Name: "P0", TName: "P0", N: &node{Kind: "basic", Basic: "int"}}, {Name: "P1", TName: "P1", N: &node{Kind: "basic", Basic: "string"}}}}
		root.Fields = append(root.Fields, &field{Name: fmt.Sprintf("F%d", len(root.Fields)), TName: fmt.Sprintf("F%d", len(root.Fields)), N: &node{Kind: "slice", Elem: &node{Kind: "tptr", Elem: pl}}})
	}
	if prop == "C04" && s.SkipCopyMode == "methods" {
		// one nested named pair with identical-type containers, reachable from two roots
		for len(s.Roots) < 2 {
			root := s.genStruct(0)
			s.Roots = append(s.Roots, root)
		}
		sh := &node{Kind: "struct", ID: s.id()}
		s.Structs[sh.ID] = sh
		for i, e := range []*node{
			{Kind: "slice", Elem: &node{Kind: "basic", Basic: "int"}},
			{Kind: "ptr", Elem: &node{Kind: "basic", Basic: "string"}},
			{Kind: "map", Key: &node{Kind: "basic", Basic: "string"}, Elem: &node{Kind: "basic", Basic: "int64"}},
		} {
			sh.Fields = append(sh.Fields, &field{Name: fmt.Sprintf("F%d", i), TName: fmt.Sprintf("F%d", i), N: e})
		}
		for i, root := range s.Roots {
			ref := &node{Kind: "ref", ID: sh.ID}
			var n *node = ref
			switch (i + r.IntN(3)) % 3 {
			case 1:
				n = &node{Kind: "ptr", Elem: ref}
			case 2:
				n = &node{Kind: "slice", Elem: ref}
			}
			root.Fields = append(root.Fields, &field{Name: fmt.Sprintf("F%d", len(root.Fields)), TName: fmt.Sprintf("F%d", len(root.Fields)), N: n})
		}
	}
	s.MethodSkip = map[string]bool{}
	if s.SkipCopyMode == "methods" {
		for _, m := range s.methods(false) {
			s.MethodSkip[m.Name] = r.IntN(2) == 0
		}
		// the alphabetically first root method carries the setting, the last one does not
		// (methods are built in name order; a shared sub-method is created by the first)
		var rootNames []string
		for _, root := range s.Roots {
			rootNames = append(rootNames, fmt.Sprintf("Conv%d", root.ID))
		}
		sort.Strings(rootNames)
		if len(rootNames) >= 2 {
			for _, m := range s.methods(false) {
				// container methods of the last root must not carry it either
				if strings.HasSuffix(m.Name, strings.TrimPrefix(rootNames[len(rootNames)-1], "Conv")) && m.Name != rootNames[0] {
					s.MethodSkip[m.Name] = false
				}
			}
			s.MethodSkip[rootNames[0]] = true
			s.MethodSkip[rootNames[len(rootNames)-1]] = false
		}
	}
	s.MethodWrapOff = map[string]bool{}
	if prop == "C07" && s.Wrap == "wrapErrors" && r.IntN(3) != 0 {
		// one nested named pair with a fallible leaf, reachable from two roots: its generated
		// sub-method is shared by declared methods with different method-level settings
		for len(s.Roots) < 2 {
			root := s.genStruct(0)
			s.Roots = append(s.Roots, root)
		}
		sh := &node{Kind: "struct", ID: s.id()}
		s.Structs[sh.ID] = sh
		sh.Fields = append(sh.Fields, &field{Name: "F0", TName: "F0", N: &node{Kind: "basic", Basic: "int"}})
		sh.Fields = append(sh.Fields, s.mkField(1, s.leafNoMap(), nil))
		for i, root := range s.Roots {
			var n *node = &node{Kind: "ref", ID: sh.ID}
			if i%2 == 1 {
				n = &node{Kind: "slice", Elem: n}
			}
			root.Fields = append(root.Fields, s.mkField(len(root.Fields), n, root))
		}
		for _, m := range s.methods(false) {
			s.MethodWrapOff[m.Name] = r.IntN(3) == 0
		}
		// the alphabetically first root method opts out, the last one does not
		var rootNames []string
		for _, root := range s.Roots {
			rootNames = append(rootNames, fmt.Sprintf("Conv%d", root.ID))
		}
		sort.Strings(rootNames)
		s.MethodWrapOff[rootNames[0]] = true
		s.MethodWrapOff[rootNames[len(rootNames)-1]] = false
	}
	if prop == "C07" && len(s.Leaves) == 0 {
		// make sure there is at least one fallible position
		root := s.Roots[0]
		root.Fields = append(root.Fields, s.mkField(len(root.Fields), s.genLeaf(), root))
	}
	if prop == "C07" {
		// sibling positions inside ONE generated method whose location paths have equal length
		// and the same innermost element but different prefixes: Pa.Value / Pb.Value,
		// La[i] / Lb[i], Ma[key] / Mb[key] (appended after every other draw, so that the rest
		// of the world is what it was before this construct existed)
		root := s.Roots[int(ctxHash(seed, 7)%uint64(len(s.Roots)))]
		us := func() *node {
			return &node{Kind: "ustruct", Fields: []*field{
				{Name: "Value", TName: "Value", N: s.leafNoMap()},
				{Name: "Count", TName: "Count", N: &node{Kind: "basic", Basic: "int"}},
			}}
		}
		add := func(name string, n *node) {
			root.Fields = append(root.Fields, &field{Name: name, TName: name, N: n})
		}
		switch ctxHash(seed, 8) % 3 {
		case 0:
			add("Pa", us())
			add("Pb", us())
			add("Pc", &node{Kind: "slice", Elem: us()})
			add("Pd", &node{Kind: "slice", Elem: us()})
		case 1:
			add("La", &node{Kind: "slice", Elem: s.leafNoMap()})
			add("Lb", &node{Kind: "slice", Elem: s.leafNoMap()})
			add("Lc", &node{Kind: "slice", Elem: s.leafNoMap()})
		default:
			add("Ma", &node{Kind: "map", Key: &node{Kind: "basic", Basic: "string"}, Elem: s.leafNoMap()})
			add("Mb", &node{Kind: "map", Key: &node{Kind: "basic", Basic: "string"}, Elem: s.leafNoMap()})
			add("Pa", us())
			add("Pb", us())
		}
	}
	if prop == "C04" && s.SkipCopy && s.Format == "struct" {
		// (appended after every other draw) direct T -> *T fields around identical unnamed
		// composites on the first root, which also gets an update method with a pointer source:
		// the fields of *source are the caller's memory, not a local copy
		root := s.Roots[0]
		s.UpdPtrRoot = map[int]bool{root.ID: true}
		pl := &node{Kind: "ustruct", Fields: []*field{{Name: "P0", TName: "P0", N: &node{Kind: "basic", Basic: "string"}}, {Name: "P1", TName: "P1", N: &node{Kind: "basic", Basic: "int"}}}}
		for i, e := range []*node{
			{Kind: "slice", Elem: &node{Kind: "basic", Basic: "string"}},
			pl,
			{Kind: "map", Key: &node{Kind: "basic", Basic: "string"}, Elem: &node{Kind: "basic", Basic: "int"}},
		} {
			name := fmt.Sprintf("Tq%d", i)
			root.Fields = append(root.Fields, &field{Name: name, TName: name, N: &node{Kind: "tptr", Elem: e}})
		}
	}
	if prop == "C07" {
		// a named struct that contains itself through a slice or a map (the generated method
		// calls ITSELF), its fallible field declared before the recursive one; reached from a
		// root through a plain field. Appended after every other draw.
		tree := &node{Kind: "struct", ID: s.id()}
		s.Structs[tree.ID] = tree
		tree.Fields = append(tree.Fields, &field{Name: "Val", TName: "Val", N: s.leafNoMap()})
		self := &node{Kind: "ref", ID: tree.ID}
		if ctxHash(seed, 9)%2 == 0 {
			tree.Fields = append(tree.Fields, &field{Name: "Kids", TName: "Kids", N: &node{Kind: "slice", Elem: self}})
		} else {
			tree.Fields = append(tree.Fields, &field{Name: "Sub", TName: "Sub", N: &node{Kind: "map", Key: &node{Kind: "basic", Basic: "string"}, Elem: self}})
		}
		root := s.Roots[int(ctxHash(seed, 10)%uint64(len(s.Roots)))]
		root.Fields = append(root.Fields, &field{Name: "Tr", TName: "Tr", N: &node{Kind: "ref", ID: tree.ID}})
	}
	if prop == "C07" && s.Seed%4 == 1 {
		for _, id := range sortedIDs(s.Leaves) {
			if s.Leaves[id].Mode == "extend" {
				s.TypedErrLeaf = id
				s.HasOptional = true
				break
			}
		}
	}
	return s
}

func (s *Spec) id() int { s.nextID++; return s.nextID }

func ctxHash(seed uint64, id int) uint64 {
	x := seed ^ 0xC7C7C7C7 ^ (uint64(id) * 0x9E3779B97F4A7C15)
	x ^= x >> 30
	x *= 0xBF58476D1CE4E5B9
	x ^= x >> 27
	x *= 0x94D049BB133111EB
	x ^= x >> 31
	return x
}

// ctxParams: the parameter list of a custom function over `src` in a Ctx world: which of
// the two contexts it takes and where (before / after the source), drawn per function id.
// Returns the parameter text and the Go statement that checks the received values.
func (s *Spec) ctxParams(id int, src string, zero string, fallible bool) (string, string) {
	if !s.Ctx {
		return src, ""
	}
	a, b := "ctxA *CtxA", "ctxB CtxB"
	ret := "panic(\"wrong context value\")"
	if fallible {
		ret = "return " + zero + ", errWrongContext"
	}
	ca := "\tif ctxA == nil || ctxA.N != 11 {\n\t\t" + ret + "\n\t}\n"
	cb := "\tif ctxB.N != 22 {\n\t\t" + ret + "\n\t}\n"
	switch ctxHash(s.Seed, id) % 6 {
	case 0:
		return src, ""
	case 1:
		return src + ", " + a, ca
	case 2:
		return src + ", " + b, cb
	case 3:
		return src + ", " + b + ", " + a, ca + cb
	case 4:
		return src + ", " + a + ", " + b, ca + cb
	default:
		if strings.HasPrefix(src, "c ") {
			return src + ", " + b, cb
		}
		return a + ", " + src, ca
	}
}

// CtxSig is what every declared method carries behind its other parameters in a Ctx world.
func (s *Spec) CtxSig() string {
	if !s.Ctx {
		return ""
	}
	return ", ctxA *CtxA, ctxB CtxB"
}

func (s *Spec) mkField(i int, n *node, parent *node) *field {
	f := &field{Name: fmt.Sprintf("F%d", i), N: n}
	f.TName = f.Name
	if s.Prop == "C07" && s.rng.IntN(3) == 0 {
		f.TName = fmt.Sprintf("G%d", i)
	}
	if n.Kind != "ptr" && n.Kind != "leaf" && n.Kind != "sptr" && n.Kind != "tptr" && s.rng.IntN(8) == 0 {
		f.PtrOnT = true
	}
	if n.Kind == "leaf" {
		li := s.Leaves[n.ID]
		if li.Mode == "mapfunc" {
			f.MapFunc = li.Fn
			if s.rng.IntN(4) != 0 {
				f.TName = fmt.Sprintf("G%d", i) // target name differs from the source name
			}
		}
	}
	if s.MatchIgnoreCase && parent != nil && parent.Kind == "struct" && f.MapFunc == "" && f.TName == f.Name && s.rng.IntN(2) == 0 {
		f.Name, f.TName, f.CaseOnly = fmt.Sprintf("Fld%d", i), fmt.Sprintf("FLD%d", i), true
	}
	return f
}

func (s *Spec) genStruct(depth int) *node {
	n := &node{Kind: "struct", ID: s.id()}
	s.Structs[n.ID] = n
	s.structsAt = append(s.structsAt, n.ID)
	nf := 1 + s.rng.IntN(4)
	for i := 0; i < nf; i++ {
		n.Fields = append(n.Fields, s.mkField(i, s.gen(depth+1, n), n))
	}
	s.structsAt = s.structsAt[:len(s.structsAt)-1]
	if s.Prop == "C04" && s.rng.IntN(6) == 0 {
		// optional: an interface-typed field (any -> any), which goverter refuses today; should
		// it ever convert such positions by itself, the dynamic value must not be shared
		n.Fields = append(n.Fields, &field{Optional: true, OptKind: "any", Name: fmt.Sprintf("F%d", len(n.Fields)), TName: fmt.Sprintf("F%d", len(n.Fields)), N: &node{Kind: "basic", Basic: "any"}})
		s.HasOptional = true
	}
	if s.Prop == "C04" && s.Seed%3 == 0 && depth == 0 {
		// a self-referential named type (a rose tree / nested dictionary): copied by a
		// sub-method that calls itself
		id := s.id()
		s.SelfRefs[id] = []string{"slice", "map"}[int(s.Seed/3)%2]
		n.Fields = append(n.Fields, &field{Name: fmt.Sprintf("F%d", len(n.Fields)), TName: fmt.Sprintf("F%d", len(n.Fields)), N: &node{Kind: "selfref", ID: id}})
	}
	if s.Prop == "C04" && s.rng.IntN(8) == 0 {
		// unsafe.Pointer: a basic type for go/types whose value is a pointer
		n.Fields = append(n.Fields, &field{Name: fmt.Sprintf("F%d", len(n.Fields)), TName: fmt.Sprintf("F%d", len(n.Fields)), N: &node{Kind: "basic", Basic: "unsafe.Pointer"}})
	}
	if s.Prop == "C07" && s.rng.IntN(3) == 0 {
		// a fallible conversion between named basic types, mostly into a pointer target
		// (basic -> *basic is converted inline by a rule of its own), also as list element
		bl := &node{Kind: "bleaf", ID: s.id()}
		if s.rng.IntN(3) != 0 {
			bl.Basic = "ptr"
		}
		s.BLeaves[bl.ID] = fmt.Sprintf("ConvBl%d", bl.ID)
		var fn *node = bl
		if s.rng.IntN(3) == 0 {
			fn = &node{Kind: "slice", Elem: bl}
		}
		n.Fields = append(n.Fields, s.mkField(len(n.Fields), fn, n))
	}
	if s.Prop == "C07" && s.rng.IntN(4) == 0 {
		// goverter:autoMap: target fields that live in a nested struct of the source; the
		// location of a failure is the TARGET field, without the source nesting. The setting
		// applies to every struct converted inside the method, so it gets a named struct (and
		// with it a method) of its own that holds no unnamed structs.
		am := &node{Kind: "struct", ID: s.id()}
		s.Structs[am.ID] = am
		am.Fields = append(am.Fields, &field{Name: "F0", TName: "F0", N: &node{Kind: "basic", Basic: "int"}})
		sub := &node{Kind: "sonly", ID: s.id()}
		sub.Fields = append(sub.Fields,
			&field{Name: fmt.Sprintf("Am%dx", sub.ID), TName: fmt.Sprintf("Am%dx", sub.ID), N: &node{Kind: "basic", Basic: "int"}},
			&field{Name: fmt.Sprintf("Am%dy", sub.ID), TName: fmt.Sprintf("Am%dy", sub.ID), N: s.leafNoMap()})
		subName := fmt.Sprintf("Sub%d", sub.ID)
		am.Fields = append(am.Fields, &field{SOnly: true, Name: subName, TName: subName, N: sub})
		for _, in := range sub.Fields {
			am.Fields = append(am.Fields, &field{TOnly: true, AutoFrom: subName, Name: in.Name, TName: in.TName, N: in.N})
		}
		var fn *node = am
		if s.rng.IntN(2) == 0 {
			fn = &node{Kind: "slice", Elem: am}
		}
		n.Fields = append(n.Fields, s.mkField(len(n.Fields), fn, n))
	}
	if s.Prop == "C07" && depth < 2 && s.rng.IntN(3) == 0 {
		// an embedded struct (or *struct) holding a fallible leaf: the embedded field is a
		// location element like any other field
		e := &node{Kind: "struct", ID: s.id()}
		s.Structs[e.ID] = e
		e.Fields = append(e.Fields, &field{Name: "F0", TName: "F0", N: &node{Kind: "basic", Basic: "int"}}, s.mkField(1, s.leafNoMap(), nil))
		var fn *node = e
		if s.rng.IntN(3) == 0 {
			fn = &node{Kind: "ptr", Elem: e}
		}
		n.Fields = append(n.Fields, &field{Embed: true, Name: fmt.Sprintf("S%d", e.ID), TName: fmt.Sprintf("T%d", e.ID), N: fn})
	}
	if s.Prop == "C04" && s.rng.IntN(4) == 0 {
		// accessor method returning internal state of the source
		var gn *node
		switch s.rng.IntN(3) {
		case 0:
			gn = &node{Kind: "slice", Elem: &node{Kind: "basic", Basic: "string"}}
		case 1:
			gn = &node{Kind: "map", Key: &node{Kind: "basic", Basic: "string"}, Elem: &node{Kind: "basic", Basic: "int"}}
		default:
			gn = &node{Kind: "ptr", Elem: &node{Kind: "basic", Basic: "int64"}}
		}
		n.GetterField = len(n.Fields)
		n.Fields = append(n.Fields, &field{Name: fmt.Sprintf("F%d", len(n.Fields)), TName: fmt.Sprintf("F%d", len(n.Fields)), N: gn})
		n.Fields = append(n.Fields, &field{TOnly: true, MapPath: fmt.Sprintf("Get%d", n.ID), Name: fmt.Sprintf("Got%d", n.ID), TName: fmt.Sprintf("Got%d", n.ID), N: gn})
		n.Getter = true
	}
	if s.Prop == "C04" && (s.rng.IntN(4) == 0 || s.UseUnderlying) {
		// a container that is a named type on one side and its unnamed form on the other
		// (assignable, but not identical)
		var el *node
		switch s.rng.IntN(3) {
		case 0:
			el = &node{Kind: "slice", Elem: &node{Kind: "basic", Basic: []string{"string", "int"}[s.rng.IntN(2)]}}
		case 1:
			el = &node{Kind: "slice", Elem: &node{Kind: "ptr", Elem: &node{Kind: "basic", Basic: "int"}}}
		default:
			el = &node{Kind: "map", Key: &node{Kind: "basic", Basic: "string"}, Elem: &node{Kind: "basic", Basic: "string"}}
		}
		nc := &node{Kind: "ncont", ID: s.id(), Basic: []string{"S", "T"}[s.rng.IntN(2)], Elem: el}
		s.NConts[nc.ID] = nc
		var fn *node = nc
		if s.rng.IntN(3) == 0 {
			fn = &node{Kind: "slice", Elem: nc}
		}
		n.Fields = append(n.Fields, &field{Name: fmt.Sprintf("F%d", len(n.Fields)), TName: fmt.Sprintf("F%d", len(n.Fields)), N: fn})
	}
	if s.Prop == "C04" && s.rng.IntN(4) == 0 {
		// dotted path mapping through a nil-able pointer: T.P = &<copy of> S.F.B0
		inner := &node{Kind: "struct", ID: s.id()}
		s.Structs[inner.ID] = inner
		bt := []string{"string", "int", "int64"}[s.rng.IntN(3)]
		inner.Fields = append(inner.Fields, &field{Name: "B0", TName: "B0", N: &node{Kind: "basic", Basic: bt}},
			&field{Name: "B1", TName: "B1", N: &node{Kind: "slice", Elem: &node{Kind: "basic", Basic: "int"}}})
		fi := len(n.Fields)
		n.Fields = append(n.Fields, &field{Name: fmt.Sprintf("F%d", fi), TName: fmt.Sprintf("F%d", fi), N: &node{Kind: "ptr", Elem: inner}})
		pk := "basic"
		var pn *node = &node{Kind: "ptr", Elem: &node{Kind: "basic", Basic: bt}}
		if s.rng.IntN(2) == 0 {
			pn = &node{Kind: "basic", Basic: bt} // value target: nil intermediate yields the zero value?
			pk = "value"
		}
		_ = pk
		if pn.Kind == "ptr" {
			n.Fields = append(n.Fields, &field{TOnly: true, MapPath: fmt.Sprintf("F%d.B0", fi), Name: fmt.Sprintf("P%d", fi), TName: fmt.Sprintf("P%d", fi), N: pn})
		}
	}
	if s.Prop == "C04" && s.rng.IntN(4) == 0 {
		// a named struct that is the SAME type on both sides (must still be deep-copied)
		sh := s.genShared(0)
		var fn *node = sh
		switch s.rng.IntN(4) {
		case 0:
			fn = &node{Kind: "slice", Elem: sh}
		case 1:
			fn = &node{Kind: "ptr", Elem: sh}
		}
		n.Fields = append(n.Fields, &field{Name: fmt.Sprintf("F%d", len(n.Fields)), TName: fmt.Sprintf("F%d", len(n.Fields)), N: fn})
		if s.rng.IntN(2) == 0 {
			// optional: arrays (as targets) around identical or converted elements
			var el *node = sh
			if s.rng.IntN(3) == 0 {
				el = &node{Kind: "basic", Basic: basics[s.rng.IntN(len(basics))]}
			}
			arr := &node{Kind: "array", ID: 2 + s.rng.IntN(2), Elem: el}
			n.Fields = append(n.Fields, &field{Optional: true, OptKind: "array", Name: fmt.Sprintf("F%d", len(n.Fields)), TName: fmt.Sprintf("F%d", len(n.Fields)), N: arr})
			s.HasOptional = true
		}
	}
	if s.Prop == "C07" {
		n.MethodSrc = s.rng.IntN(5) == 0
		n.MethodSrcFunc = n.MethodSrc && s.rng.IntN(2) == 0
		n.Ctor = s.rng.IntN(6) == 0
	}
	return n
}

func (s *Spec) genLeaf() *node {
	n := &node{Kind: "leaf", ID: s.id()}
	modes := []string{"extend", "extend", "mapfunc"}
	if s.Format == "struct" {
		modes = append(modes, "extendconv")
	}
	m := modes[s.rng.IntN(len(modes))]
	fn := fmt.Sprintf("ConvLeaf%d", n.ID)
	if m == "mapfunc" {
		fn = fmt.Sprintf("MapLeaf%d", n.ID)
	}
	s.Leaves[n.ID] = &leafInfo{ID: n.ID, Mode: m, Fn: fn}
	return n
}

func (s *Spec) gen(depth int, parent *node) *node {
	r := s.rng
	if depth >= s.maxDepth {
		if s.Prop == "C07" && r.IntN(3) == 0 {
			return s.leafNoMap()
		}
		return &node{Kind: "basic", Basic: basics[r.IntN(len(basics))]}
	}
	total := 0
	for _, w := range s.W {
		total += w
	}
	x := r.IntN(total)
	kind := 0
	for i, w := range s.W {
		if x < w {
			kind = i
			break
		}
		x -= w
	}
	switch kind {
	case 0:
		// a leaf directly in a struct field may use map|FUNC; elsewhere only extend
		if parent != nil && parent.Kind == "struct" {
			return s.genLeaf()
		}
		return s.leafNoMap()
	case 1:
		return &node{Kind: "basic", Basic: basics[r.IntN(len(basics))]}
	case 2:
		n := &node{Kind: "nbasic", ID: s.id(), Basic: basics[r.IntN(len(basics))]}
		s.NBasics[n.ID] = n.Basic
		return n
	case 3:
		return s.genStruct(depth)
	case 4:
		e := s.gen(depth+1, nil)
		if e.Kind == "ptr" && e.Elem.Kind == "ptr" {
			return e
		}
		return &node{Kind: "ptr", Elem: e}
	case 5:
		return &node{Kind: "slice", Elem: s.gen(depth+1, nil)}
	case 6:
		k := &node{Kind: "basic", Basic: []string{"string", "int", "int64"}[r.IntN(3)]}
		if r.IntN(4) == 0 {
			k = &node{Kind: "nbasic", ID: s.id(), Basic: "string"}
			s.NBasics[k.ID] = "string"
		}
		if s.Prop == "C07" && r.IntN(5) == 0 {
			k = s.leafNoMap()
			s.KeyLeaf = true
		}
		if s.Prop == "C04" && r.IntN(5) == 0 {
			// comparable keys that hold pointers: a pointer to, or a value of, a struct that
			// is the same type on both sides ({H0 int; H1 *int})
			ks := &node{Kind: "shared", ID: s.id()}
			s.Shared[ks.ID] = ks
			ks.Fields = []*field{
				{Name: "H0", TName: "H0", N: &node{Kind: "basic", Basic: "int"}},
				{Name: "H1", TName: "H1", N: &node{Kind: "ptr", Elem: &node{Kind: "basic", Basic: "int"}}},
			}
			k = ks
			if r.IntN(2) == 0 {
				k = &node{Kind: "ptr", Elem: ks}
			}
		}
		return &node{Kind: "map", Key: k, Elem: s.gen(depth+1, nil)}
	case 7:
		n := &node{Kind: "ustruct"}
		nf := 1 + r.IntN(s.UFieldsMax)
		plain := r.IntN(100) < s.UPlainPct
		for i := 0; i < nf; i++ {
			var fn *node
			if plain {
				fn = &node{Kind: "basic", Basic: basics[r.IntN(len(basics))]}
			} else if s.Prop == "C07" && r.IntN(100) < s.ULeafPct {
				fn = s.leafNoMap()
			} else {
				fn = s.gen(depth+1, nil)
			}
			n.Fields = append(n.Fields, &field{Name: fmt.Sprintf("U%d", i), TName: fmt.Sprintf("U%d", i), N: fn})
		}
		return n
	case 10:
		e := s.gen(depth+1, nil)
		if e.Kind == "ptr" || e.Kind == "tptr" || e.Kind == "sptr" || e.Kind == "leaf" {
			return e
		}
		return &node{Kind: "tptr", Elem: e}
	case 11:
		e := s.gen(depth+1, nil)
		if e.Kind == "ptr" || e.Kind == "tptr" || e.Kind == "sptr" || e.Kind == "leaf" {
			return e
		}
		return &node{Kind: "sptr", Elem: e}
	case 9:
		n := &node{Kind: "enum", ID: s.id()}
		s.Enums[n.ID] = []int{2, 3, 5, 8, 9, 12, 16}[r.IntN(7)]
		return n
	default:
		// a reference to a struct declared earlier: an ancestor (recursion, through a
		// pointer or slice) or any completed struct (the same named pair is then reachable
		// from several methods)
		if ids := sortedIDs(s.Structs); len(ids) > 0 && r.IntN(2) == 0 {
			id := ids[r.IntN(len(ids))]
			anc := false
			for _, a := range s.structsAt {
				if a == id {
					anc = true
				}
			}
			if !anc && len(s.Structs[id].Fields) > 0 {
				return &node{Kind: "ref", ID: id}
			}
		}
		if len(s.structsAt) > 0 {
			ref := &node{Kind: "ref", ID: s.structsAt[r.IntN(len(s.structsAt))]}
			if r.IntN(2) == 0 {
				return &node{Kind: "ptr", Elem: ref}
			}
			return &node{Kind: "slice", Elem: ref}
		}
		return &node{Kind: "basic", Basic: "int"}
	}
}

func (s *Spec) leafNoMap() *node {
	n := s.genLeaf()
	li := s.Leaves[n.ID]
	if li.Mode == "mapfunc" {
		li.Mode = "extend"
		li.Fn = fmt.Sprintf("ConvLeaf%d", n.ID)
	}
	return n
}

// ---- rendering ------------------------------------------------------------------------

func (s *Spec) expr(n *node, side string) string {
	switch n.Kind {
	case "basic":
		return n.Basic
	case "nbasic":
		return fmt.Sprintf("%sN%d", side, n.ID)
	case "struct", "ref":
		return fmt.Sprintf("%s%d", side, n.ID)
	case "leaf":
		return fmt.Sprintf("%sLeaf%d", side, n.ID)
	case "enum":
		if side == "T" {
			return fmt.Sprintf("te.TE%d", n.ID)
		}
		return fmt.Sprintf("SE%d", n.ID)
	case "sonly":
		return fmt.Sprintf("SAuto%d", n.ID)
	case "selfref":
		return fmt.Sprintf("Rec%d", n.ID)
	case "bleaf":
		if side == "S" {
			return fmt.Sprintf("SBl%d", n.ID)
		}
		if n.Basic == "ptr" {
			return fmt.Sprintf("*TBl%d", n.ID)
		}
		return fmt.Sprintf("TBl%d", n.ID)
	case "ptr":
		return "*" + s.expr(n.Elem, side)
	case "shared":
		return fmt.Sprintf("Sh%d", n.ID)
	case "ncont":
		// Basic holds the side ("S" or "T") on which the container is a named type
		if side == n.Basic {
			return fmt.Sprintf("NC%d", n.ID)
		}
		return s.expr(n.Elem, side)
	case "array":
		return fmt.Sprintf("[%d]%s", n.ID, s.expr(n.Elem, side))
	case "sptr":
		// *T on the source side, T on the target side (useZeroValueOnPointerInconsistency)
		if side == "S" {
			return "*" + s.expr(n.Elem, side)
		}
		return s.expr(n.Elem, side)
	case "tptr":
		// T on the source side, *T on the target side (any position)
		if side == "T" {
			return "*" + s.expr(n.Elem, side)
		}
		return s.expr(n.Elem, side)
	case "slice":
		return "[]" + s.expr(n.Elem, side)
	case "map":
		return "map[" + s.expr(n.Key, side) + "]" + s.expr(n.Elem, side)
	case "ustruct":
		var b strings.Builder
		b.WriteString("struct{ ")
		for _, f := range n.Fields {
			name := f.Name
			if side == "T" {
				name = f.TName
			}
			fmt.Fprintf(&b, "%s %s; ", name, s.fieldExpr(f, side))
		}
		b.WriteString("}")
		return b.String()
	}
	return "int"
}

func (s *Spec) fieldExpr(f *field, side string) string {
	e := s.alias(s.expr(f.N, side), s.expr(f.N, "S") == s.expr(f.N, "T"))
	if side == "T" && f.PtrOnT {
		return "*" + e
	}
	return e
}

// alias spells a container or pointer type through a type alias when the world uses aliases
// (only types that read the same on both sides, so one alias serves both).
func (s *Spec) alias(e string, sameBothSides bool) string {
	if !s.Aliases || !sameBothSides || !(strings.HasPrefix(e, "[]") || strings.HasPrefix(e, "map[") || strings.HasPrefix(e, "*")) {
		return e
	}
	if a, ok := s.aliasOf[e]; ok {
		return a
	}
	if s.aliasOf == nil {
		s.aliasOf = map[string]string{}
	}
	a := fmt.Sprintf("AL%d", len(s.aliasOf))
	s.aliasOf[e] = a
	s.aliasOrder = append(s.aliasOrder, e)
	return a
}

func sortedIDs[V any](m map[int]V) []int {
	var ids []int
	for k := range m {
		ids = append(ids, k)
	}
	sort.Ints(ids)
	return ids
}

// TypesSource renders package w's type declarations and custom functions.
func (s *Spec) TypesSource() string {
	var b strings.Builder
	s.aliasOf, s.aliasOrder = nil, nil
	b.WriteString("package w\n\n")
	if s.usesRuntime() {
		b.WriteString("import \"verifsim\"\n\n")
	}
	if len(s.Enums) > 0 {
		b.WriteString("import \"cw/w/te\"\n\n")
		for _, id := range sortedIDs(s.Enums) {
			fmt.Fprintf(&b, "type SE%d int\n\nconst (\n", id)
			for k := 0; k < s.Enums[id]; k++ {
				if k == 0 {
					fmt.Fprintf(&b, "\tE%dM%d SE%d = iota\n", id, k, id)
				} else {
					fmt.Fprintf(&b, "\tE%dM%d\n", id, k)
				}
			}
			b.WriteString(")\n")
		}
	}
	for _, id := range sortedIDs(s.NBasics) {
		fmt.Fprintf(&b, "type SN%d %s\ntype TN%d %s\n", id, s.NBasics[id], id, s.NBasics[id])
	}
	for _, id := range sortedIDs(s.NConts) {
		fmt.Fprintf(&b, "type NC%d %s\n", id, s.expr(s.NConts[id].Elem, "S"))
	}
	for _, id := range sortedIDs(s.SelfRefs) {
		if s.SelfRefs[id] == "map" {
			fmt.Fprintf(&b, "type Rec%d map[string]Rec%d\n", id, id)
		} else {
			fmt.Fprintf(&b, "type Rec%d []Rec%d\n", id, id)
		}
	}
	for _, id := range sortedIDs(s.Shared) {
		n := s.Shared[id]
		fmt.Fprintf(&b, "type Sh%d struct {\n", id)
		for _, f := range n.Fields {
			fmt.Fprintf(&b, "\t%s %s\n", f.Name, s.alias(s.expr(f.N, "S"), true))
		}
		b.WriteString("}\n")
	}
	for _, id := range sortedIDs(s.Structs) {
		n := s.Structs[id]
		for _, side := range []string{"S", "T"} {
			fmt.Fprintf(&b, "type %s%d struct {\n", side, id)
			if n.MethodSrc || n.Ctor {
				b.WriteString("\tID int\n")
			}
			if n.MethodSrc && side == "T" {
				fmt.Fprintf(&b, "\tCalc%d int\n", id)
			}
			for _, f := range n.Fields {
				if (f.TOnly && side == "S") || (f.SOnly && side == "T") {
					continue
				}
				name := f.Name
				if side == "T" {
					name = f.TName
				}
				if f.Embed {
					fmt.Fprintf(&b, "\t%s\n", s.fieldExpr(f, side))
					continue
				}
				fmt.Fprintf(&b, "\t%s %s\n", name, s.fieldExpr(f, side))
			}
			b.WriteString("}\n")
		}
	}
	for _, id := range sortedIDs(s.Structs) {
		for _, f := range s.Structs[id].Fields {
			if f.SOnly && f.N.Kind == "sonly" {
				fmt.Fprintf(&b, "type SAuto%d struct {\n", f.N.ID)
				for _, in := range f.N.Fields {
					fmt.Fprintf(&b, "\t%s %s\n", in.Name, s.expr(in.N, "S"))
				}
				b.WriteString("}\n")
			}
		}
	}
	for _, id := range sortedIDs(s.Structs) {
		n := s.Structs[id]
		if n.Getter {
			f := n.Fields[n.GetterField]
			fmt.Fprintf(&b, "func (s S%d) Get%d() %s { return s.%s }\n", id, id, s.expr(f.N, "S"), f.Name)
		}
		if n.MethodSrc {
			fn := fmt.Sprintf("S%d.Calc%d", id, id)
			fmt.Fprintf(&b, "func (s S%d) Calc%d() (int, error) {\n\tif verifsim.Poisoned(%q, s.ID) {\n\t\treturn 0, verifsim.Inject(%q, s.ID)\n\t}\n\treturn s.ID*7 + 1, nil\n}\n", id, id, fn, fn)
			fmt.Fprintf(&b, "func (s S%d) TwinCalc%d() int { return s.ID*7 + 1 }\n", id, id)
			if n.MethodSrcFunc {
				mf := fmt.Sprintf("MapCalc%d", id)
				fmt.Fprintf(&b, "func %s(v int) (int, error) {\n\tif verifsim.Poisoned(%q, v) {\n\t\treturn 0, verifsim.Inject(%q, v)\n\t}\n\treturn v + 1000, nil\n}\n", mf, mf, mf)
				fmt.Fprintf(&b, "func Twin%s(v int) int { return v + 1000 }\n", mf)
			}
		}
		if n.Ctor {
			fn := fmt.Sprintf("NewT%d", id)
			fmt.Fprintf(&b, "func %s(s S%d) (T%d, error) {\n\tif verifsim.Poisoned(%q, s.ID) {\n\t\treturn T%d{}, verifsim.Inject(%q, s.ID)\n\t}\n\treturn T%d{}, nil\n}\n", fn, id, id, fn, id, fn, id)
			fmt.Fprintf(&b, "func Twin%s(s S%d) T%d { return T%d{} }\n", fn, id, id, id)
		}
	}
	for _, id := range sortedIDs(s.Leaves) {
		li := s.Leaves[id]
		fmt.Fprintf(&b, "type SLeaf%d struct {\n\tID int\n\tV string\n}\ntype TLeaf%d struct {\n\tID int\n\tMark string\n}\n", id, id)
		arg := fmt.Sprintf("s SLeaf%d", id)
		if li.Mode == "extendconv" {
			arg = "c Converter, " + arg
		}
		chk := ""
		if li.Mode == "extend" || li.Mode == "extendconv" {
			arg, chk = s.ctxParams(id, arg, fmt.Sprintf("TLeaf%d{}", id), true)
		}
		if id == s.TypedErrLeaf {
			// a concrete error type: nil on success is a typed nil pointer
			fmt.Fprintf(&b, "func %s(%s) (TLeaf%d, *verifsim.InjectedError) {\n\tif verifsim.Poisoned(%q, s.ID) {\n\t\treturn TLeaf%d{}, verifsim.Inject(%q, s.ID).(*verifsim.InjectedError)\n\t}\n\treturn TLeaf%d{ID: s.ID, Mark: %q + s.V}, nil\n}\n",
				li.Fn, fmt.Sprintf("s SLeaf%d", id), id, li.Fn, id, li.Fn, id, li.Fn+":")
		} else {
			fmt.Fprintf(&b, "func %s(%s) (TLeaf%d, error) {\n%s\tif verifsim.Poisoned(%q, s.ID) {\n\t\treturn TLeaf%d{}, verifsim.Inject(%q, s.ID)\n\t}\n\treturn TLeaf%d{ID: s.ID, Mark: %q + s.V}, nil\n}\n",
				li.Fn, arg, id, chk, li.Fn, id, li.Fn, id, li.Fn+":")
		}
		// infallible twin
		targ := fmt.Sprintf("s SLeaf%d", id)
		if li.Mode == "extendconv" {
			targ = "c TwinConverter, " + targ
		}
		tchk := ""
		if (li.Mode == "extend" || li.Mode == "extendconv") && id != s.TypedErrLeaf {
			targ, tchk = s.ctxParams(id, targ, "", false)
		}
		fmt.Fprintf(&b, "func Twin%s(%s) TLeaf%d {\n%s\treturn TLeaf%d{ID: s.ID, Mark: %q + s.V}\n}\n", li.Fn, targ, id, tchk, id, li.Fn+":")
	}
	for _, id := range sortedIDs(s.BLeaves) {
		fn := s.BLeaves[id]
		fmt.Fprintf(&b, "type SBl%d int\ntype TBl%d int\n", id, id)
		barg, bchk := s.ctxParams(1000+id, fmt.Sprintf("v SBl%d", id), "0", true)
		fmt.Fprintf(&b, "func %s(%s) (TBl%d, error) {\n%s\tif verifsim.Poisoned(%q, int(v)) {\n\t\treturn 0, verifsim.Inject(%q, int(v))\n\t}\n\treturn TBl%d(int(v)*3 + %d), nil\n}\n", fn, barg, id, bchk, fn, fn, id, id)
		targ, tchk := s.ctxParams(1000+id, fmt.Sprintf("v SBl%d", id), "", false)
		fmt.Fprintf(&b, "func Twin%s(%s) TBl%d {\n%s\treturn TBl%d(int(v)*3 + %d)\n}\n", fn, targ, id, tchk, id, id)
	}
	if s.Ctx {
		b.WriteString("type CtxA struct{ N int }\ntype CtxB struct{ N int }\n\nvar errWrongContext = errors.New(\"custom function received a wrong context value\")\n")
	}
	for i, e := range s.aliasOrder {
		fmt.Fprintf(&b, "type AL%d = %s\n", i, e)
	}
	src := b.String()
	if strings.Contains(src, "unsafe.Pointer") {
		src = strings.Replace(src, "package w\n\n", "package w\n\nimport \"unsafe\"\n\n", 1)
	}
	if s.Ctx {
		src = strings.Replace(src, "package w\n\n", "package w\n\nimport \"errors\"\n\n", 1)
	}
	return src
}

type methodSpec struct {
	Name string
	In   string
	Out  string
	Doc  []string
	// Update: update-signature method `Name(source In, target *T)`; Out holds T.
	Update   bool
	Fallible bool // update method with an error result
	// TargetFirst: the update method declares its target parameter before the source
	// (`Name(target *T, source In)`), which the signature rules allow.
	TargetFirst bool
}

// methods lists the declared converter methods: the roots in several container positions,
// plus — where a struct carries map|FUNC or renamed fields — an explicit method for it.
func (s *Spec) methods(twin bool) []methodSpec {
	var ms []methodSpec
	fallible := s.Prop == "C07"
	out := func(t string) string {
		if fallible && !twin {
			return "(" + t + ", error)"
		}
		return t
	}
	for i, r := range s.Roots {
		S, T := fmt.Sprintf("S%d", r.ID), fmt.Sprintf("T%d", r.ID)
		switch i % 4 {
		case 0:
			ms = append(ms, methodSpec{Name: fmt.Sprintf("ConvSlice%d", r.ID), In: "[]" + S, Out: out("[]" + T)})
		case 1:
			ms = append(ms, methodSpec{Name: fmt.Sprintf("ConvMap%d", r.ID), In: "map[string]" + S, Out: out("map[string]" + T)})
		}
		if s.PtrRoot[r.ID] {
			ms = append(ms, methodSpec{Name: fmt.Sprintf("ConvPtr%d", r.ID), In: "*" + S, Out: out("*" + T)})
		}
		if s.UpdPtrRoot[r.ID] && !twin {
			ms = append(ms, methodSpec{Name: fmt.Sprintf("UpdP%d", r.ID), In: "*" + S, Out: T, Update: true, Doc: []string{"goverter:update target"}})
		}
		if s.UpdRoot[r.ID] && (!twin || s.Prop == "C07") {
			ms = append(ms, methodSpec{Name: fmt.Sprintf("Upd%d", r.ID), In: S, Out: T, Update: true, Fallible: fallible && !twin, Doc: []string{"goverter:update target"}})
		}
	}
	// explicit struct methods (needed for goverter:map lines)
	for _, id := range sortedIDs(s.Structs) {
		n := s.Structs[id]
		var doc []string
		for _, f := range n.Fields {
			switch {
			case f.SOnly:
				doc = append(doc, "goverter:autoMap "+f.Name)
			case f.TOnly && f.AutoFrom != "":
				// filled by goverter:autoMap
			case f.TOnly:
				doc = append(doc, fmt.Sprintf("goverter:map %s %s", f.MapPath, f.TName))
			case f.MapFunc != "":
				fn := f.MapFunc
				if twin {
					fn = "Twin" + fn
				}
				doc = append(doc, fmt.Sprintf("goverter:map %s %s | %s", f.Name, f.TName, fn))
			case f.TName != f.Name && !f.CaseOnly:
				doc = append(doc, fmt.Sprintf("goverter:map %s %s", f.Name, f.TName))
			}
		}
		if n.Ctor {
			fn := fmt.Sprintf("NewT%d", id)
			if twin {
				fn = "Twin" + fn
			}
			doc = append(doc, "goverter:default "+fn)
		}
		switch {
		case n.MethodSrc && n.MethodSrcFunc && twin:
			doc = append(doc, fmt.Sprintf("goverter:map TwinCalc%d Calc%d | TwinMapCalc%d", id, id, id))
		case n.MethodSrc && n.MethodSrcFunc:
			doc = append(doc, fmt.Sprintf("goverter:map Calc%d Calc%d | MapCalc%d", id, id, id))
		case n.MethodSrc && twin:
			doc = append(doc, fmt.Sprintf("goverter:map TwinCalc%d Calc%d", id, id))
		case n.MethodSrc && !s.AutoMethodSrc:
			doc = append(doc, fmt.Sprintf("goverter:map Calc%d Calc%d", id, id))
		}
		isRoot := false
		for _, r := range s.Roots {
			if r.ID == id {
				isRoot = true
			}
		}
		// an update method of this struct needs the same field mappings
		for i := range ms {
			if ms[i].Update && (ms[i].Name == fmt.Sprintf("Upd%d", id) || ms[i].Name == fmt.Sprintf("UpdP%d", id)) {
				for _, l := range doc {
					if strings.HasPrefix(l, "goverter:map ") {
						ms[i].Doc = append(ms[i].Doc, l)
					}
				}
			}
		}
		if len(doc) > 0 || isRoot || n.MethodSrc || n.Ctor {
			ms = append(ms, methodSpec{Name: fmt.Sprintf("Conv%d", id), In: fmt.Sprintf("S%d", id), Out: out(fmt.Sprintf("T%d", id)), Doc: doc})
		}
	}
	if s.Prop == "C04" && s.Format == "struct" && !twin {
		// an update method over one identical type on both sides whose TARGET parameter comes
		// first: roles are given by goverter:update, not by position
		for _, id := range sortedIDs(s.Shared) {
			ms = append(ms, methodSpec{Name: fmt.Sprintf("UpdT%d", id), In: fmt.Sprintf("*Sh%d", id), Out: fmt.Sprintf("Sh%d", id), Update: true, TargetFirst: true, Doc: []string{"goverter:update target"}})
			break
		}
	}
	if s.TypedErrLeaf != 0 {
		// a declared method with exactly the signature of the extend function
		ms = append(ms, methodSpec{Name: fmt.Sprintf("LeafDecl%d", s.TypedErrLeaf), In: fmt.Sprintf("SLeaf%d", s.TypedErrLeaf), Out: out(fmt.Sprintf("TLeaf%d", s.TypedErrLeaf))})
	}
	for i := range ms {
		if s.MethodSkip[ms[i].Name] {
			ms[i].Doc = append(ms[i].Doc, "goverter:skipCopySameType")
		}
		if s.MethodWrapOff[ms[i].Name] && !twin {
			ms[i].Doc = append(ms[i].Doc, "goverter:wrapErrors no")
		}
	}
	sort.Slice(ms, func(i, j int) bool { return ms[i].Name < ms[j].Name })
	return ms
}

// ConverterSource renders the converter declaration(s) of package w.
func (s *Spec) ConverterSource() string {
	var b strings.Builder
	b.WriteString("package w\n\n")
	render := func(name string, twin bool) {
		var lines []string
		lines = append(lines, "// goverter:converter")
		if s.Format == "function" {
			lines = append(lines, "// goverter:output:format function")
		}
		if twin && s.Format != "variables" {
			lines = append(lines, "// goverter:output:file ./twin/twin.go")
		}
		if s.Ctx {
			// before goverter:extend: settings apply in the order they are written
			lines = append(lines, "// goverter:arg:context:regex ^ctx")
		}
		var ext []string
		for _, id := range sortedIDs(s.Leaves) {
			li := s.Leaves[id]
			if li.Mode == "extend" || li.Mode == "extendconv" {
				if twin {
					ext = append(ext, "Twin"+li.Fn)
				} else {
					ext = append(ext, li.Fn)
				}
			}
		}
		for _, id := range sortedIDs(s.BLeaves) {
			if twin {
				ext = append(ext, "Twin"+s.BLeaves[id])
			} else {
				ext = append(ext, s.BLeaves[id])
			}
		}
		if len(ext) > 0 {
			lines = append(lines, "// goverter:extend "+strings.Join(ext, " "))
		}
		if s.SkipCopy {
			lines = append(lines, "// goverter:skipCopySameType")
		}
		if len(s.Enums) > 0 {
			lines = append(lines, "// goverter:enum:unknown @ignore")
		}
		if s.IgnoreMissing {
			lines = append(lines, "// goverter:ignoreMissing")
		}
		if s.UseZero {
			lines = append(lines, "// goverter:useZeroValueOnPointerInconsistency")
		}
		if s.UseUnderlying {
			lines = append(lines, "// goverter:useUnderlyingTypeMethods")
		}
		if s.MatchIgnoreCase {
			lines = append(lines, "// goverter:matchIgnoreCase")
		}
		if s.Unexported {
			lines = append(lines, "// goverter:ignoreUnexported")
		}
		if !twin {
			switch s.Wrap {
			case "wrapErrors":
				lines = append(lines, "// goverter:wrapErrors")
			case "wrapErrorsUsing":
				lines = append(lines, "// goverter:wrapErrorsUsing cw/w/perr")
			}
		}
		ms := s.methods(twin)
		if s.Format == "variables" {
			lines[0] = "// goverter:variables"
			fmt.Fprintf(&b, "%s\nvar (\n", strings.Join(lines, "\n"))
			for _, m := range ms {
				for _, d := range m.Doc {
					fmt.Fprintf(&b, "\t// %s\n", d)
				}
				n := m.Name
				if twin {
					n = "Twin" + n
				}
				switch {
				case m.Update && m.Fallible:
					fmt.Fprintf(&b, "\t%s func(source %s, target *%s%s) error\n", n, m.In, m.Out, s.CtxSig())
				case m.Update:
					fmt.Fprintf(&b, "\t%s func(source %s, target *%s%s)\n", n, m.In, m.Out, s.CtxSig())
				default:
					fmt.Fprintf(&b, "\t%s func(source %s%s) %s\n", n, m.In, s.CtxSig(), m.Out)
				}
			}
			b.WriteString(")\n\n")
			return
		}
		fmt.Fprintf(&b, "%s\ntype %s interface {\n", strings.Join(lines, "\n"), name)
		for _, m := range ms {
			for _, d := range m.Doc {
				fmt.Fprintf(&b, "\t// %s\n", d)
			}
			n := m.Name
			if twin && s.Format == "function" {
				n = "Twin" + n
			}
			if m.Update && m.Fallible {
				fmt.Fprintf(&b, "\t%s(source %s, target *%s%s) error\n", n, m.In, m.Out, s.CtxSig())
			} else if m.Update && m.TargetFirst {
				fmt.Fprintf(&b, "\t%s(target *%s, source %s)\n", n, m.Out, m.In)
			} else if m.Update {
				fmt.Fprintf(&b, "\t%s(source %s, target *%s%s)\n", n, m.In, m.Out, s.CtxSig())
			} else {
				fmt.Fprintf(&b, "\t%s(source %s%s) %s\n", n, m.In, s.CtxSig(), m.Out)
			}
		}
		b.WriteString("}\n\n")
	}
	render("Converter", false)
	if s.Prop == "C07" {
		render("TwinConverter", true)
	}
	return b.String()
}

func (s *Spec) usesRuntime() bool {
	if len(s.Leaves) > 0 || len(s.BLeaves) > 0 {
		return true
	}
	for _, n := range s.Structs {
		if n.MethodSrc || n.Ctor {
			return true
		}
	}
	return false
}

// exprsIn collects the source-side type expressions that occur in the conversion tree of a
// type expression rooted at struct id.
func (s *Spec) exprsIn(n *node, out map[string]bool, seen map[int]bool) {
	out[s.expr(n, "S")] = true
	switch n.Kind {
	case "struct", "ref":
		if seen[n.ID] {
			return
		}
		seen[n.ID] = true
		for _, f := range s.Structs[n.ID].Fields {
			s.exprsIn(f.N, out, seen)
		}
	case "ustruct":
		for _, f := range n.Fields {
			s.exprsIn(f.N, out, seen)
		}
	case "ptr", "slice", "tptr", "sptr", "array", "ncont":
		s.exprsIn(n.Elem, out, seen)
	case "map":
		s.exprsIn(n.Key, out, seen)
		s.exprsIn(n.Elem, out, seen)
	}
}

// SkipInvolved says whether skipCopySameType is involved in method m: set on the
// converter, on m itself, or on another declared method whose source type occurs in m's
// conversion tree (goverter calls declared methods wherever their types occur).
func (s *Spec) SkipInvolved(m methodSpec) bool {
	if s.SkipCopy || s.MethodSkip[m.Name] {
		return true
	}
	id := 0
	fmt.Sscanf(strings.TrimLeft(m.In, "[]*mapstring"), "S%d", &id)
	root, ok := s.Structs[id]
	if !ok {
		return false
	}
	exprs := map[string]bool{m.In: true}
	s.exprsIn(root, exprs, map[int]bool{})
	for _, x := range s.methods(false) {
		if x.Name != m.Name && s.MethodSkip[x.Name] && exprs[x.In] {
			return true
		}
	}
	return false
}

// genChain builds n levels of unnamed containers around an unnamed struct whose fields
// are mostly fallible leaves.
func (s *Spec) genChain(n int) *node {
	r := s.rng
	inner := &node{Kind: "ustruct"}
	nf := 2 + r.IntN(3)
	for i := 0; i < nf; i++ {
		var fn *node
		if r.IntN(4) != 0 {
			fn = s.leafNoMap()
		} else {
			fn = &node{Kind: "basic", Basic: basics[r.IntN(len(basics))]}
		}
		inner.Fields = append(inner.Fields, &field{Name: fmt.Sprintf("U%d", i), TName: fmt.Sprintf("U%d", i), N: fn})
	}
	cur := inner
	for i := 0; i < n; i++ {
		switch r.IntN(4) {
		case 0:
			cur = &node{Kind: "slice", Elem: cur}
		case 1:
			cur = &node{Kind: "map", Key: &node{Kind: "basic", Basic: []string{"string", "int"}[r.IntN(2)]}, Elem: cur}
		case 2:
			if cur.Kind != "ptr" {
				cur = &node{Kind: "ptr", Elem: cur}
			} else {
				cur = &node{Kind: "slice", Elem: cur}
			}
		default:
			cur = &node{Kind: "ustruct", Fields: []*field{{Name: "W0", TName: "W0", N: cur}, {Name: "W1", TName: "W1", N: &node{Kind: "basic", Basic: "int"}}}}
		}
	}
	return cur
}

// EnumTargetSource renders package te: the target-side enum types (members carry the same
// names as on the source side, which lives in package w).
func (s *Spec) EnumTargetSource() string {
	var b strings.Builder
	b.WriteString("package te\n\n")
	for _, id := range sortedIDs(s.Enums) {
		fmt.Fprintf(&b, "type TE%d int\n\nconst (\n", id)
		for k := 0; k < s.Enums[id]; k++ {
			if k == 0 {
				fmt.Fprintf(&b, "\tE%dM%d TE%d = iota\n", id, k, id)
			} else {
				fmt.Fprintf(&b, "\tE%dM%d\n", id, k)
			}
		}
		b.WriteString(")\n")
	}
	return b.String()
}

// ManualSpec builds a minimal C07 world with exactly one fallible position of the given
// kind (extend | extendconv | mapfunc | methodsrc-auto | methodsrc-map | ctor) at the given
// position (direct | slice | map | ptr | nested | nested-slice), for the generation-time
// clause matrix.
func ManualSpec(kind, position string, ignoreMissing bool, format, wrap string) *Spec {
	s := &Spec{Prop: "C07", Structs: map[int]*node{}, NBasics: map[int]string{}, Leaves: map[int]*leafInfo{}, Enums: map[int]int{},
		PtrRoot: map[int]bool{}, UpdRoot: map[int]bool{}, MethodSkip: map[string]bool{}, MethodWrapOff: map[string]bool{}, Shared: map[int]*node{}, NConts: map[int]*node{}, Format: format, Wrap: wrap, IgnoreMissing: ignoreMissing, SkipCopyMode: "none",
		rng: rand.New(rand.NewPCG(1, 2))}
	root := &node{Kind: "struct", ID: s.id()}
	s.Structs[root.ID] = root
	s.Roots = []*node{root}
	root.Fields = append(root.Fields, &field{Name: "F0", TName: "F0", N: &node{Kind: "basic", Basic: "int"}})
	// the struct that carries the fallible thing
	var carrier *node
	switch position {
	case "direct":
		carrier = root
	default:
		carrier = &node{Kind: "struct", ID: s.id()}
		s.Structs[carrier.ID] = carrier
		carrier.Fields = append(carrier.Fields, &field{Name: "F0", TName: "F0", N: &node{Kind: "basic", Basic: "string"}})
		var wrapN *node = carrier
		switch position {
		case "slice":
			wrapN = &node{Kind: "slice", Elem: carrier}
		case "map":
			wrapN = &node{Kind: "map", Key: &node{Kind: "basic", Basic: "string"}, Elem: carrier}
		case "ptr":
			wrapN = &node{Kind: "ptr", Elem: carrier}
		case "nested-slice":
			wrapN = &node{Kind: "slice", Elem: &node{Kind: "slice", Elem: carrier}}
		}
		root.Fields = append(root.Fields, &field{Name: "F1", TName: "F1", N: wrapN})
	}
	switch kind {
	case "extend", "extendconv", "mapfunc":
		n := &node{Kind: "leaf", ID: s.id()}
		fn := fmt.Sprintf("ConvLeaf%d", n.ID)
		if kind == "mapfunc" {
			fn = fmt.Sprintf("MapLeaf%d", n.ID)
		}
		s.Leaves[n.ID] = &leafInfo{ID: n.ID, Mode: kind, Fn: fn}
		f := &field{Name: fmt.Sprintf("F%d", len(carrier.Fields)), TName: fmt.Sprintf("F%d", len(carrier.Fields)), N: n}
		if kind == "mapfunc" {
			f.MapFunc = fn
		}
		carrier.Fields = append(carrier.Fields, f)
	case "methodsrc-auto":
		carrier.MethodSrc = true
		s.AutoMethodSrc = true
	case "methodsrc-map":
		carrier.MethodSrc = true
	case "ctor":
		carrier.Ctor = true
	}
	return s
}

// genShared builds a named struct used identically on the source and target side: only
// side-independent kinds (basics, containers of basics, nested shared structs).
func (s *Spec) genShared(depth int) *node {
	r := s.rng
	n := &node{Kind: "shared", ID: s.id()}
	s.Shared[n.ID] = n
	bas := func() *node { return &node{Kind: "basic", Basic: basics[r.IntN(len(basics))]} }
	nf := 2 + r.IntN(3)
	for i := 0; i < nf; i++ {
		var fn *node
		switch r.IntN(6) {
		case 0:
			fn = bas()
		case 1:
			fn = &node{Kind: "slice", Elem: bas()}
		case 2:
			fn = &node{Kind: "ptr", Elem: bas()}
		case 3:
			fn = &node{Kind: "map", Key: &node{Kind: "basic", Basic: "string"}, Elem: bas()}
		case 4:
			if depth < 2 {
				fn = &node{Kind: "ptr", Elem: s.genShared(depth + 1)}
			} else {
				fn = bas()
			}
		default:
			fn = &node{Kind: "slice", Elem: &node{Kind: "ptr", Elem: bas()}}
		}
		n.Fields = append(n.Fields, &field{Name: fmt.Sprintf("H%d", i), TName: fmt.Sprintf("H%d", i), N: fn})
	}
	if r.IntN(2) == 0 && !(s.Aliases && s.Seed%2 == 0) {
		// (half of the alias worlds stay without goverter:ignoreUnexported, which switches
		// whole-struct shortcuts off)
		// internal state of the type: unexported reference fields (like big.Int, bytes.Buffer);
		// generated code outside package w cannot touch them → goverter:ignoreUnexported
		n.Fields = append(n.Fields,
			&field{Name: fmt.Sprintf("hs%d", n.ID), TName: fmt.Sprintf("hs%d", n.ID), N: &node{Kind: "slice", Elem: bas()}},
			&field{Name: fmt.Sprintf("hm%d", n.ID), TName: fmt.Sprintf("hm%d", n.ID), N: &node{Kind: "map", Key: &node{Kind: "basic", Basic: "string"}, Elem: bas()}},
			&field{Name: fmt.Sprintf("hp%d", n.ID), TName: fmt.Sprintf("hp%d", n.ID), N: &node{Kind: "ptr", Elem: bas()}})
		s.Unexported = true
	}
	return n
}

// StripOptional removes the optional fields (returns false when there was nothing to strip).
func (s *Spec) StripOptional() bool { return s.StripOptionalKind("") }

// StripOptionalKind removes the optional fields of one kind ("" = all kinds).
func (s *Spec) StripOptionalKind(kind string) bool {
	if !s.HasOptional {
		return false
	}
	if kind == "" || kind == "typederr" {
		s.TypedErrLeaf = 0
	}
	for _, n := range s.Structs {
		var getter *field
		if n.Getter && n.GetterField < len(n.Fields) {
			getter = n.Fields[n.GetterField]
		}
		var keep []*field
		for _, f := range n.Fields {
			if !f.Optional || (kind != "" && f.OptKind != kind) {
				if f == getter {
					n.GetterField = len(keep)
				}
				keep = append(keep, f)
			}
		}
		n.Fields = keep
	}
	s.HasOptional = s.TypedErrLeaf != 0
	for _, n := range s.Structs {
		for _, f := range n.Fields {
			if f.Optional {
				s.HasOptional = true
			}
		}
	}
	return true
}
