// Package convsim is engine B: generated converters under a seeded cooperative scheduler
// (C04) and under value-keyed failing custom functions (C07). The unmodified goverter,
// built from /repo's working tree, generates converters for seeded worlds; the emitted code
// gets the map-order seam (and yields for C04); a test binary per world then runs
// thousands of simulated executions driven by pgregory.net/rapid as the only choice source.
package convsim

import (
	"bytes"
	"embed"
	"encoding/json"
	"fmt"
	"os"
	"os/exec"
	"path/filepath"
	"regexp"
	"sort"
	"strconv"
	"strings"
	"sync"
	"time"

	"verif/internal/gensim"
	vnode "verif/internal/node"
	"verif/internal/rt"
	"verif/internal/seam"
)

//go:embed harness/*.go
var harnessFS embed.FS

type worldResult struct {
	Seed             uint64
	Spec             *Spec
	Rejected         bool // goverter refused the world (not a violation)
	RejectMsg        string
	Failed           bool
	Output           string
	FailFile         string
	Stats            map[string]any
	BuildErr         error
	Dir              string
	NoErrOK          bool // generation-time clause checked and held
	NoErrViol        string
	OptionalStripped string
	RaceRan          bool
	RaceReport       string
}

func goRun(dir string, env []string, name string, args ...string) (string, error) {
	cmd := exec.Command(name, args...)
	cmd.Dir = dir
	cmd.Env = append(vnode.GoEnv(), env...)
	var out bytes.Buffer
	cmd.Stdout = &out
	cmd.Stderr = &out
	err := cmd.Run()
	return out.String(), err
}

func writeFile(p, content string) error {
	if err := os.MkdirAll(filepath.Dir(p), 0o755); err != nil {
		return err
	}
	return os.WriteFile(p, []byte(content), 0o644)
}

const perrSource = `package perr

import (
	"fmt"

	"verifsim"
)

type Elem = verifsim.WrapElem

type wrapped struct {
	err   error
	elems []Elem
}

func (w *wrapped) Error() string { return fmt.Sprintf("%v at %v", w.err, w.elems) }
func (w *wrapped) Unwrap() error { return w.err }

func Wrap(err error, elems ...Elem) error {
	verifsim.RecordWrap(elems)
	return &wrapped{err: err, elems: elems}
}
func Key(k any) Elem      { return Elem{Kind: "key", Value: fmt.Sprintf("%T(%v)", k, k)} }
func Index(i int) Elem    { return Elem{Kind: "index", Value: fmt.Sprint(i)} }
func Field(s string) Elem { return Elem{Kind: "field", Value: s} }
`

// WorldFiles renders every input file of the world (everything except the runtime and the
// harness library, which always come from /verif).
func (s *Spec) WorldFiles() map[string]string {
	files := map[string]string{
		"w/types.go":       s.TypesSource(),
		"w/conv.go":        s.ConverterSource(),
		"run/main_test.go": s.TestSource(),
	}
	if len(s.Enums) > 0 {
		files["w/te/te.go"] = s.EnumTargetSource()
	}
	if s.Wrap == "wrapErrorsUsing" {
		files["w/perr/perr.go"] = perrSource
	}
	if s.Aliases {
		// part of the world: the GODEBUG setting of the goverter process
		files["godebug.txt"] = "gotypesalias=1"
	}
	return files
}

// materialise writes the world module (without generated code).
func materialise(dir string, s *Spec) error {
	return materialiseFiles(dir, s.WorldFiles())
}

func materialiseFiles(dir string, files map[string]string) error {
	if err := rt.WriteRuntime(filepath.Join(dir, "verifsim")); err != nil {
		return err
	}
	gomod := "module cw\n\ngo 1.23\n\nrequire (\n\tpgregory.net/rapid v1.3.0\n\tverifsim v0.0.0\n)\n\nreplace verifsim => ./verifsim\n"
	if err := writeFile(filepath.Join(dir, "go.mod"), gomod); err != nil {
		return err
	}
	for p, c := range files {
		if err := writeFile(filepath.Join(dir, filepath.FromSlash(p)), c); err != nil {
			return err
		}
	}
	ents, _ := harnessFS.ReadDir("harness")
	for _, e := range ents {
		if strings.HasSuffix(e.Name(), "_test.go") {
			continue
		}
		b, _ := harnessFS.ReadFile("harness/" + e.Name())
		src := strings.ReplaceAll(string(b), `"verif/internal/rt/verifsim"`, `"verifsim"`)
		if err := writeFile(filepath.Join(dir, "harness", e.Name()), src); err != nil {
			return err
		}
	}
	return nil
}

// TestSource renders the per-world test file that registers the generated methods.
func (s *Spec) TestSource() string {
	var b strings.Builder
	b.WriteString("package run\n\nimport (\n\t\"testing\"\n\n\t\"cw/harness\"\n")
	hasTwin := s.Prop == "C07"
	switch s.Format {
	case "variables":
		b.WriteString("\t\"cw/w\"\n")
	default:
		b.WriteString("\tgen \"cw/w/generated\"\n")
		needW := s.Ctx
		for _, m := range s.methods(false) {
			if m.TargetFirst {
				needW = true
			}
		}
		if needW {
			b.WriteString("\t\"cw/w\"\n")
		}
		if hasTwin {
			b.WriteString("\ttwin \"cw/w/twin\"\n")
		}
	}
	b.WriteString(")\n\nvar world = &harness.World{\n")
	fmt.Fprintf(&b, "\tSkipCopy: %v,\n\tWrap: %q,\n", s.SkipCopy, s.Wrap)
	b.WriteString("\tRenames: map[string]map[string]string{\n")
	for _, id := range sortedIDs(s.Structs) {
		n := s.Structs[id]
		var rs []string
		for _, f := range n.Fields {
			if f.TName != f.Name {
				rs = append(rs, fmt.Sprintf("%q: %q", f.Name, f.TName))
			}
		}
		if len(rs) > 0 {
			fmt.Fprintf(&b, "\t\t\"S%d\": {%s},\n", id, strings.Join(rs, ", "))
		}
	}
	b.WriteString("\t},\n\tAutoMap: map[string]map[string]bool{\n")
	for _, id := range sortedIDs(s.Structs) {
		for _, f := range s.Structs[id].Fields {
			if f.SOnly {
				fmt.Fprintf(&b, "\t\t\"S%d\": {%q: true},\n", id, f.Name)
			}
		}
	}
	b.WriteString("\t},\n\tLeafFn: map[string]string{\n")
	for _, id := range sortedIDs(s.Leaves) {
		fmt.Fprintf(&b, "\t\t\"SLeaf%d\": %q,\n", id, s.Leaves[id].Fn)
	}
	for _, id := range sortedIDs(s.BLeaves) {
		fmt.Fprintf(&b, "\t\t\"SBl%d\": %q,\n", id, s.BLeaves[id])
	}
	b.WriteString("\t},\n\tMethodSrc: map[string][][3]string{\n")
	for _, id := range sortedIDs(s.Structs) {
		if s.Structs[id].MethodSrc {
			fmt.Fprintf(&b, "\t\t\"S%d\": {{\"S%d.Calc%d\", \"Calc%d\", \"id\"}", id, id, id, id)
			if s.Structs[id].MethodSrcFunc {
				fmt.Fprintf(&b, ", {\"MapCalc%d\", \"Calc%d\", \"calc\"}", id, id)
			}
			b.WriteString("},\n")
		}
	}
	b.WriteString("\t},\n\tEnums: map[string]int{\n")
	for _, id := range sortedIDs(s.Enums) {
		fmt.Fprintf(&b, "\t\t\"SE%d\": %d,\n", id, s.Enums[id])
	}
	b.WriteString("\t},\n\tWrapOffTypes: map[string]bool{\n")
	for _, id := range sortedIDs(s.Structs) {
		if s.MethodWrapOff[fmt.Sprintf("Conv%d", id)] {
			fmt.Fprintf(&b, "\t\t\"S%d\": true,\n", id)
		}
	}
	b.WriteString("\t},\n\tCtor: map[string]string{\n")
	for _, id := range sortedIDs(s.Structs) {
		if s.Structs[id].Ctor {
			fmt.Fprintf(&b, "\t\t\"S%d\": \"NewT%d\",\n", id, id)
		}
	}
	b.WriteString("\t},\n}\n\nfunc init() {\n")
	switch s.Format {
	case "struct":
		b.WriteString("\tc := &gen.ConverterImpl{}\n")
		if hasTwin {
			b.WriteString("\ttc := &twin.TwinConverterImpl{}\n")
		}
	}
	b.WriteString("\tworld.Methods = []harness.Method{\n")
	for _, m := range s.methods(false) {
		var fn, tw string
		switch s.Format {
		case "struct":
			fn, tw = "c."+m.Name, "tc."+m.Name
		case "function":
			fn, tw = "gen."+m.Name, "twin.Twin"+m.Name
		default:
			fn, tw = "w."+m.Name, "w.Twin"+m.Name
		}
		if m.TargetFirst {
			// the harness calls (source, target)
			fn = fmt.Sprintf("func(source %s, target *w.%s) { %s(target, source) }", strings.Replace(m.In, "*", "*w.", 1), m.Out, fn)
		}
		if s.Ctx {
			// the harness calls (source) / (source, target); the contexts are fixed values
			// that the custom functions check
			in, out := qualifyW(m.In), qualifyW(m.Out)
			tout := strings.TrimSuffix(strings.TrimPrefix(out, "("), ", error)")
			switch {
			case m.Update && m.Fallible:
				fn = fmt.Sprintf("func(source %s, target *%s) error { return %s(source, target, &w.CtxA{N: 11}, w.CtxB{N: 22}) }", in, out, fn)
				tw = fmt.Sprintf("func(source %s, target *%s) { %s(source, target, &w.CtxA{N: 11}, w.CtxB{N: 22}) }", in, out, tw)
			case m.Update:
				fn = fmt.Sprintf("func(source %s, target *%s) { %s(source, target, &w.CtxA{N: 11}, w.CtxB{N: 22}) }", in, out, fn)
				tw = fmt.Sprintf("func(source %s, target *%s) { %s(source, target, &w.CtxA{N: 11}, w.CtxB{N: 22}) }", in, out, tw)
			default:
				fn = fmt.Sprintf("func(source %s) %s { return %s(source, &w.CtxA{N: 11}, w.CtxB{N: 22}) }", in, out, fn)
				tw = fmt.Sprintf("func(source %s) %s { return %s(source, &w.CtxA{N: 11}, w.CtxB{N: 22}) }", in, tout, tw)
			}
		}
		if hasTwin {
			fmt.Fprintf(&b, "\t\t{Name: %q, Fn: %s, Twin: %s, WrapOff: %v},\n", m.Name, fn, tw, s.MethodWrapOff[m.Name])
		} else {
			fmt.Fprintf(&b, "\t\t{Name: %q, Fn: %s, SkipCopy: %v},\n", m.Name, fn, s.SkipInvolved(m))
		}
	}
	b.WriteString("\t}\n}\n\nfunc TestMain(m *testing.M) { harness.Main(m) }\n\n")
	if s.Prop == "C04" {
		b.WriteString("func TestSim(t *testing.T) { harness.RunC04(t, world) }\n\nfunc TestRace(t *testing.T) { harness.RunRace(t, world) }\n")
	} else {
		b.WriteString("func TestSim(t *testing.T) { harness.RunC07(t, world) }\n")
	}
	return b.String()
}

var wTypeRe = regexp.MustCompile(`\b(S|T|SLeaf|TLeaf|Sh|SBl|TBl|SN|TN|NC|Rec|SE|AL)(\d+)\b`)

// qualifyW prefixes the world's type names in a type expression with the package name.
func qualifyW(t string) string { return wTypeRe.ReplaceAllString(t, "w.$1$2") }

// generatedFiles lists the files goverter wrote.
func generatedFiles(dir string, s *Spec) []string {
	var out []string
	for _, p := range []string{"w/generated/generated.go", "w/twin/twin.go", "w/conv.gen.go"} {
		if _, err := os.Stat(filepath.Join(dir, p)); err == nil {
			out = append(out, filepath.Join(dir, p))
		}
	}
	return out
}

type Engine struct {
	Scratch  string
	Goverter string
	Repo     string
	// PostGen, when set, may edit the generated files before the seam rewrite (used by the
	// sensitivity self-test to plant hidden shared state into emitted code).
	PostGen func(files []string) error
}

// NewEngine builds the unmodified goverter from the repo's working tree.
func NewEngine(repo string) (*Engine, error) {
	scratch, err := os.MkdirTemp(vnode.ScratchRoot(), "verif-conv-")
	if err != nil {
		return nil, &vnode.BuildError{Msg: err.Error()}
	}
	e := &Engine{Scratch: scratch, Repo: repo}
	src := filepath.Join(scratch, "goverter")
	if err := vnode.CopyTree(repo, src, map[string]bool{".git": true, "docs": true, "execution": true, "example": true, "scenario": true, ".github": true}); err != nil {
		e.Close()
		return nil, &vnode.BuildError{Msg: "copy repo: " + err.Error()}
	}
	e.Goverter = filepath.Join(scratch, "goverter-bin")
	if out, err := goRun(src, nil, "go", "build", "-trimpath", "-o", e.Goverter, "./cmd/goverter"); err != nil {
		e.Close()
		return nil, &vnode.BuildError{Msg: "build goverter: " + out}
	}
	return e, nil
}

func (e *Engine) Close() {
	if os.Getenv("VERIF_KEEP") == "" {
		_ = os.RemoveAll(e.Scratch)
	}
}

// BuildWorld materialises, generates, rewrites and compiles one world.
func (e *Engine) BuildWorld(s *Spec, idx int) (*worldResult, error) {
	r, err := e.buildWorldFiles(s, s.Prop, s.WorldFiles(), idx)
	if err == nil && r.Rejected && s.HasOptional {
		// the tree under test does not support the optional shapes (e.g. array targets):
		// rebuild the same world without them
		opt := r.RejectMsg
		// one kind at a time (each on a fresh copy of the world), then all of them
		kinds := []string{"any", "array", ""}
		if s.Prop == "C07" {
			kinds = []string{"typederr", ""}
		}
		for _, kind := range kinds {
			_ = os.RemoveAll(r.Dir)
			t := s
			if kind != "" {
				t = NewSpec(s.Seed, s.Prop)
			}
			t.StripOptionalKind(kind)
			r, err = e.buildWorldFiles(t, t.Prop, t.WorldFiles(), idx)
			if err != nil || r == nil || !r.Rejected {
				break
			}
		}
		if r != nil {
			r.OptionalStripped = firstLines(opt, 3)
		}
	}
	return r, err
}

// buildWorldFiles builds a world from explicit files (s may be nil: replay of a recorded world).
func (e *Engine) buildWorldFiles(s *Spec, prop string, files map[string]string, idx int) (*worldResult, error) {
	dir := filepath.Join(e.Scratch, fmt.Sprintf("world-%s-%d", prop, idx))
	res := &worldResult{Spec: s, Dir: dir}
	if s != nil {
		res.Seed = s.Seed
	}
	if err := materialiseFiles(dir, files); err != nil {
		return nil, &vnode.BuildError{Msg: err.Error()}
	}
	var genv []string
	if v, ok := files["godebug.txt"]; ok {
		genv = []string{"GODEBUG=" + strings.TrimSpace(v)}
	}
	out, err := goRun(dir, genv, e.Goverter, "gen", "./w")
	if err != nil {
		if ee, ok := err.(*exec.ExitError); ok && ee.ExitCode() == 1 {
			res.Rejected = true
			res.RejectMsg = out
			return res, nil
		}
		return nil, &vnode.BuildError{Msg: "goverter run: " + err.Error() + "\n" + out}
	}
	gfiles := generatedFiles(dir, s)
	if len(gfiles) == 0 {
		return nil, &vnode.BuildError{Msg: "goverter wrote no files in " + dir}
	}
	if e.PostGen != nil {
		if err := e.PostGen(gfiles); err != nil {
			return nil, &vnode.BuildError{Msg: err.Error()}
		}
	}
	only := map[string]bool{}
	for _, f := range gfiles {
		only[f] = true
	}
	if _, err := seam.Rewrite(seam.Options{Dir: dir, Patterns: []string{"./w/..."}, Env: vnode.GoEnv(), FirstSite: 1000, Yields: prop == "C04", OnlyFiles: only, RelTo: dir}); err != nil {
		// generated code that does not compile is C01's subject: skip the world
		res.Rejected = true
		res.RejectMsg = "generated code does not load: " + err.Error()
		return res, nil
	}
	if out, err := goRun(dir, nil, "go", "test", "-trimpath", "-c", "-o", filepath.Join(dir, "sim.test"), "./run"); err != nil {
		res.Rejected = true
		res.RejectMsg = "harness build failed: " + out
		res.BuildErr = fmt.Errorf("%s", out)
		return res, nil
	}
	return res, nil
}

var failFileRe = regexp.MustCompile(`-rapid\.failfile="([^"]+)"`)

// RunWorld executes the world's test binary.
func (e *Engine) RunWorld(res *worldResult, checks int, seed uint64, failfile string) error {
	stats := filepath.Join(res.Dir, "stats.json")
	args := []string{"-test.run", "TestSim", "-test.timeout", "3h", fmt.Sprintf("-rapid.checks=%d", checks), fmt.Sprintf("-rapid.seed=%d", seed%1000000007+1), "-rapid.nofailfile=false"}
	if failfile != "" {
		args = []string{"-test.run", "TestSim", "-rapid.failfile=" + failfile}
	}
	cmd := exec.Command(filepath.Join(res.Dir, "sim.test"), args...)
	cmd.Dir = filepath.Join(res.Dir, "run")
	cmd.Env = append(os.Environ(), "CONVSIM_STATS="+stats)
	var out bytes.Buffer
	cmd.Stdout = &out
	cmd.Stderr = &out
	err := cmd.Run()
	res.Output = out.String()
	if b, rerr := os.ReadFile(stats); rerr == nil {
		var st map[string]any
		if json.Unmarshal(b, &st) == nil {
			res.Stats = mergeStats(res.Stats, st)
		}
	}
	if err != nil {
		if _, ok := err.(*exec.ExitError); ok {
			res.Failed = true
			if m := failFileRe.FindStringSubmatch(res.Output); m != nil {
				p := m[1]
				if !filepath.IsAbs(p) {
					p = filepath.Join(res.Dir, "run", p)
				}
				res.FailFile = p
			}
			return nil
		}
		return &vnode.BuildError{Msg: "cannot run world binary: " + err.Error()}
	}
	return nil
}

// ---- check -------------------------------------------------------------------------------

type convReplay struct {
	Property string `json:"property"`
	Class    string `json:"class"`
	Msg      string `json:"msg"`
	Key      string `json:"key"`
	Engine   string `json:"engine"`
	Seed     uint64 `json:"seed"`
	World    uint64 `json:"world_seed"`
	// Files of the world (inputs) for the reader; the replay regenerates them from the seed.
	Files    map[string]string `json:"files"`
	FailFile string            `json:"rapid_failfile"`
	Output   string            `json:"output"`
}

var classRe = regexp.MustCompile(`(C0[47]) ([a-z0-9-]+):`)

func classify(prop, output string) (string, string) {
	if m := classRe.FindStringSubmatch(output); m != nil {
		// message: the line containing the class
		for _, l := range strings.Split(output, "\n") {
			if strings.Contains(l, m[0]) {
				return m[2], strings.TrimSpace(l)
			}
		}
		return m[2], m[0]
	}
	if strings.Contains(output, "test timed out") {
		// a watchdog is infrastructure trouble, never a violation
		return "harness-failure", "world binary timed out:\n" + firstLines(output, 6)
	}
	if strings.Contains(output, "fatal error: concurrent map") {
		return "concurrent-map-access", "the Go runtime aborted with a concurrent map access inside generated code:\n" + firstLines(output, 8)
	}
	return "harness-failure", firstLines(output, 12)
}

func firstLines(s string, n int) string {
	ls := strings.Split(s, "\n")
	if len(ls) > n {
		ls = ls[:n]
	}
	return strings.Join(ls, "\n")
}

func splitmix(x uint64) uint64 {
	x += 0x9e3779b97f4a7c15
	x = (x ^ (x >> 30)) * 0xbf58476d1ce4e5b9
	x = (x ^ (x >> 27)) * 0x94d049bb133111eb
	return x ^ (x >> 31)
}

func worldSeed(seed uint64, prop string, i int) uint64 {
	p := uint64(4)
	if prop == "C07" {
		p = 7
	}
	return splitmix(splitmix(seed^p*0x1234567) ^ uint64(i)*0x9E3779B1)
}

// Check runs the C04 or C07 check.
func Check(id, tier string, seed uint64, repo, vd string) (*gensim.Outcome, error) {
	nWorlds, checks, cold := 24, 220, 20
	if id == "C07" {
		nWorlds, checks = 40, 50
	}
	if tier == "thorough" {
		nWorlds, checks, cold = 320, 900, 60
		if id == "C07" {
			checks = 300
		}
	}
	if v, err := strconv.Atoi(os.Getenv("VERIF_WORLDS")); err == nil && v > 0 {
		nWorlds = v
	}
	if v, err := strconv.Atoi(os.Getenv("VERIF_CHECKS")); err == nil && v > 0 {
		checks = v
	}
	e, err := NewEngine(repo)
	if err != nil {
		return nil, err
	}
	defer e.Close()
	t0 := time.Now()
	results := make([]*worldResult, nWorlds)
	var wg sync.WaitGroup
	sem := make(chan struct{}, 16)
	var mu sync.Mutex
	var ferr error
	for i := 0; i < nWorlds; i++ {
		wg.Add(1)
		go func(i int) {
			defer wg.Done()
			sem <- struct{}{}
			defer func() { <-sem }()
			s := NewSpec(worldSeed(seed, id, i), id)
			r, err := e.BuildWorld(s, i)
			if err == nil && !r.Rejected {
				err = e.RunWorld(r, checks, worldSeed(seed, id, i), "")
			}
			// cold starts (C04): fresh processes, so that the first-ever calls of a method in
			// a process are the concurrent ones (lazily initialised hidden state)
			for k := 0; err == nil && id == "C04" && !r.Rejected && !r.Failed && k < cold; k++ {
				err = e.RunWorld(r, 4, worldSeed(seed, id, i)+uint64(k)*7919+1, "")
				if r.Stats != nil {
					if c, ok := r.Stats["counters"].(map[string]any); ok {
						x, _ := c["c04.cold_processes"].(float64)
						c["c04.cold_processes"] = x + 1
					}
				}
			}
			if err == nil && id == "C07" && !r.Rejected {
				err = e.checkNoErrClause(r, i)
			}
			if err == nil && id == "C04" && tier == "thorough" && !r.Rejected && !r.Failed && i < 32 {
				err = e.raceAux(r)
			}
			mu.Lock()
			if err != nil && ferr == nil {
				ferr = err
			}
			results[i] = r
			mu.Unlock()
			if r != nil && !r.Failed && r.NoErrViol == "" {
				_ = os.RemoveAll(r.Dir)
			}
		}(i)
	}
	wg.Wait()
	if ferr != nil {
		return nil, ferr
	}
	out := &gensim.Outcome{Property: id, Level: map[string]string{"C04": "exploration", "C07": "fault_enumeration"}[id]}
	var matrixViol []string
	matrixRefused, matrixControls := 0, 0
	if id == "C07" {
		var merr error
		matrixViol, matrixRefused, matrixControls, merr = e.noErrMatrix()
		if merr != nil {
			return nil, merr
		}
	}
	counters := map[string]float64{}
	distinct := map[string]float64{}
	var samples []any
	rejected, ran := 0, 0
	raceWorlds := 0
	optionalStripped, optionalKept := 0, 0
	var rejectSamples []string
	formats := map[string]int{}
	seenKey := map[string]bool{}
	for i, r := range results {
		if r == nil {
			continue
		}
		if r.Rejected {
			rejected++
			if len(rejectSamples) < 3 {
				rejectSamples = append(rejectSamples, firstLines(r.RejectMsg, 40))
			}
			continue
		}
		ran++
		if r.OptionalStripped != "" {
			optionalStripped++
		}
		if r.Spec != nil && r.Spec.HasOptional {
			optionalKept++
		}
		formats[r.Spec.Format+"/"+r.Spec.Wrap+"/skipcopy="+r.Spec.SkipCopyMode]++
		if r.Stats != nil {
			if c, ok := r.Stats["counters"].(map[string]any); ok {
				for k, v := range c {
					counters[k] += v.(float64)
				}
			}
			if d, ok := r.Stats["distinct"].(map[string]any); ok {
				for k, v := range d {
					distinct[k] += v.(float64)
				}
			}
			if s, ok := r.Stats["samples"].([]any); ok && len(samples) < 4 {
				for _, x := range s {
					if len(samples) < 4 {
						samples = append(samples, map[string]any{"world": i, "format": r.Spec.Format, "wrap": r.Spec.Wrap, "case": x})
					}
				}
			}
		}
		if len(samples) < 4 {
			samples = append(samples, map[string]any{"world": i, "world_seed": r.Seed, "format": r.Spec.Format, "methods": methodNames(r.Spec), "types_source_head": firstLines(r.Spec.TypesSource(), 14)})
		}
		record := func(class, msg, output, failfile string) error {
			key := id + ":" + class
			if seenKey[key] {
				return nil
			}
			seenKey[key] = true
			rp := &convReplay{Property: id, Class: class, Msg: msg, Key: key, Engine: "convsim", Seed: seed, World: r.Seed, Output: trim(output, 6000),
				Files: r.Spec.WorldFiles()}
			if failfile != "" {
				if b, err := os.ReadFile(failfile); err == nil {
					rp.FailFile = string(b)
				}
			}
			_ = os.MkdirAll(filepath.Join(vd, "replays"), 0o755)
			p := filepath.Join(vd, "replays", fmt.Sprintf("%s-%d-w%d-%s.json", id, seed, i, class))
			b, _ := json.MarshalIndent(rp, "", " ")
			if err := os.WriteFile(p, b, 0o644); err != nil {
				return err
			}
			out.Found = append(out.Found, gensim.Found{V: gensim.Violation{Property: id, Class: class, Msg: msg, Key: key}})
			out.Replays = append(out.Replays, p)
			return nil
		}
		if r.Failed {
			class, msg := classify(id, r.Output)
			if class == "harness-failure" {
				return nil, &vnode.BuildError{Msg: fmt.Sprintf("world %d (seed %d): harness failure:\n%s", i, r.Seed, trim(r.Output, 3000))}
			}
			if err := record(class, msg, r.Output, r.FailFile); err != nil {
				return nil, err
			}
		}
		if r.NoErrViol != "" {
			if err := record("missing-error-result-accepted", r.NoErrViol, r.NoErrViol, ""); err != nil {
				return nil, err
			}
		}
		if r.RaceReport != "" {
			if err := record("data-race", "C04 data-race: the Go race detector (auxiliary, not simulation) reports a race between concurrent calls on one shared source: "+firstLines(r.RaceReport, 12), r.RaceReport, ""); err != nil {
				return nil, err
			}
		}
		if r.RaceRan {
			raceWorlds++
		}
		_ = os.RemoveAll(r.Dir)
	}
	for k, v := range matrixViol {
		if k > 0 {
			break
		}
		key := id + ":missing-error-result-accepted"
		if !seenKey[key] {
			seenKey[key] = true
			rp := &convReplay{Property: id, Class: "missing-error-result-accepted-matrix", Msg: v, Key: key, Engine: "convsim", Seed: seed, Output: strings.Join(matrixViol, "\n")}
			_ = os.MkdirAll(filepath.Join(vd, "replays"), 0o755)
			p := filepath.Join(vd, "replays", fmt.Sprintf("%s-%d-noerr-matrix.json", id, seed))
			b, _ := json.MarshalIndent(rp, "", " ")
			if err := os.WriteFile(p, b, 0o644); err != nil {
				return nil, err
			}
			out.Found = append(out.Found, gensim.Found{V: gensim.Violation{Property: id, Class: "missing-error-result-accepted", Msg: v, Key: key}})
			out.Replays = append(out.Replays, p)
		}
	}
	if rejected*4 > ran+rejected {
		return nil, &vnode.BuildError{Msg: fmt.Sprintf("%d of %d worlds were rejected (goverter refused them or the emitted code / harness did not compile) — the world generator or the tree under test is off; first reasons: %v", rejected, ran+rejected, rejectSamples)}
	}
	if ran == 0 {
		return nil, &vnode.BuildError{Msg: fmt.Sprintf("all %d worlds were rejected by goverter; first: %v", rejected, rejectSamples)}
	}
	pfx := strings.ToLower(id) + "."
	execs := int64(counters[pfx+"executions"] + counters["c07.fault_runs"])
	wall := time.Since(t0).Seconds()
	cov := map[string]any{
		"evaluations":         execs,
		"distinct_nontrivial": int64(distinct[pfx+"nontrivial"]),
		"worlds_run":          ran,
		"worlds_rejected_by_goverter_or_not_compiling": rejected,
		"rejection_samples":                            rejectSamples,
		"world_kinds":                                  formats,
		"counters":                                     counters,
		"distinct_sets":                                distinct,
		"executions_per_hour":                          int64(float64(execs) / wall * 3600),
		"simulated_time":                               "none: generated converters never read a clock or block; progress is measured in scheduler steps / custom-function calls",
		"samples":                                      samples,
		"real_vs_stub": map[string]any{
			"real": []string{"unmodified goverter built from /repo's working tree generates the converters", "the emitted converter code (with range-over-map redirected to verifsim.Seq2 and, for C04, a yield before every statement)", "Go runtime, reflect"},
			"stub": []string{"scheduler choosing among caller goroutines (exactly one runnable)", "map iteration order inside generated code", "user custom functions (harness-written, failing on command)", "the user's wrapErrorsUsing package (records Wrap calls)"},
		},
	}
	if id == "C04" {
		cov["rule"] = "per world (seeded type forest, converter in one of three output formats) and method: rapid draws task count 1-4, source mode (S one shared source / D shape-equal distinct sources), a source value with internal sharing, a map-order seed and a schedule (uniform per step or PCT-style priorities with drawn preemption points). Non-trivial = at least one context switch between different tasks; distinct = distinct (method, hash of (task,site) at context switches, value tape, mode, map-order seed), counted inside each world binary and summed over worlds"
		cov["steps_scheduler"] = int64(counters["c04.steps"])
		cov["context_switches"] = int64(counters["c04.context_switches"])
		cov["distinct_interleavings"] = int64(distinct["c04.interleavings"])
		cov["optional_shapes"] = map[string]any{"worlds_rebuilt_without_them_because_goverter_refused": optionalStripped, "worlds_that_kept_them": optionalKept,
			"note": "array targets are not supported by goverter today; worlds carry them as optional fields so that a change that starts supporting them is exercised"}
		cov["race_detector_auxiliary"] = map[string]any{"worlds": raceWorlds, "note": "thorough tier only; NOT simulation: tasks released together without the scheduler, binary built with -race; reports only real races; decides nothing on its own"}
		if counters["c04.skipcopy_executions"] > 0 && counters["c04.skipcopy_executions_with_sharing"] == 0 {
			return nil, &vnode.BuildError{Msg: "C04 positive control failed: skipCopySameType worlds ran but no execution exhibited sharing at an identical-type position (detector blind)"}
		}
	} else {
		cov["rule"] = "per world and method: rapid draws a source value (unique ids at every fallible leaf, nothing shared) and a map-order seed; a fault-free dry run yields the reached custom-function calls; EVERY reached call is failed alone (exhaustive up to 64) and drawn sets of 2-5 are failed together. Non-trivial = a run in which a planned fault fired; distinct = distinct (method, fault set, location of the failing element, map-order seed), counted inside each world binary and summed"
		cov["faults_fired"] = int64(counters["c07.faults_fired"])
		cov["single_faults_enumerated"] = int64(counters["c07.single_faults"])
		cov["multi_fault_sets"] = int64(counters["c07.multi_fault_sets"])
		noerr := 0
		for _, r := range results {
			if r != nil && r.NoErrOK {
				noerr++
			}
		}
		cov["generation_time_clause_worlds_refused_as_required"] = noerr
		cov["generation_time_clause_matrix"] = map[string]any{"variants_refused_as_required": matrixRefused, "controls_generated": matrixControls, "violations": len(matrixViol),
			"rule": "6 fallible kinds (extend, extend with converter arg, map|FUNC, struct method auto-matched / mapped, default constructor) x 6 positions (direct, slice, map, ptr, nested struct, nested slices) x ignoreMissing on/off, root method declared without error result: goverter must refuse; exhaustive over this matrix"}
	}
	out.Coverage = cov
	out.Assume = []string{
		"the rewriter's yields and Seq2 do not change the meaning of the emitted code (single-node replacements, validated by compiling and by the fault-free twin comparison)",
		"values are bounded (<= ~60 nodes, depth <= 6); schedules and values are sampled, single faults are exhaustive per execution",
	}
	return out, nil
}

func methodNames(s *Spec) []string {
	var out []string
	for _, m := range s.methods(false) {
		out = append(out, m.Name+"("+m.In+") "+m.Out)
	}
	sort.Strings(out)
	return out
}

func trim(s string, n int) string {
	if len(s) > n {
		return s[:n] + "…"
	}
	return s
}

// checkNoErrClause: a declared method without error result whose conversion reaches a
// fallible custom function must be refused at generation time.
func (e *Engine) checkNoErrClause(r *worldResult, idx int) error {
	s := r.Spec
	dir := filepath.Join(e.Scratch, fmt.Sprintf("noerr-%d", idx))
	defer os.RemoveAll(dir)
	if err := materialise(dir, s); err != nil {
		return &vnode.BuildError{Msg: err.Error()}
	}
	// drop the error result of each declared method that reaches a fallible function (one
	// at a time, up to four per world); goverter must refuse every such variant
	convSrc := s.ConverterSource()
	tried := 0
	for _, m := range s.methods(false) {
		if tried >= 4 {
			break
		}
		if !s.reachesLeaf(m) {
			continue
		}
		re := regexp.MustCompile(`(\s` + m.Name + `(?: func)?\(source [^)]*\)) \(([^,]+), error\)`)
		loc := re.FindStringIndex(convSrc)
		if loc == nil {
			continue
		}
		tried++
		conv := convSrc[:loc[0]] + re.ReplaceAllString(convSrc[loc[0]:loc[1]], "$1 $2") + convSrc[loc[1]:]
		if err := writeFile(filepath.Join(dir, "w", "conv.go"), conv); err != nil {
			return &vnode.BuildError{Msg: err.Error()}
		}
		_ = os.RemoveAll(filepath.Join(dir, "w", "generated"))
		_ = os.RemoveAll(filepath.Join(dir, "w", "twin"))
		_ = os.Remove(filepath.Join(dir, "w", "conv.gen.go"))
		out, err := goRun(dir, nil, e.Goverter, "gen", "./w")
		if err == nil {
			r.NoErrViol = fmt.Sprintf("C07 missing-error-result-accepted: method %s was declared without an error result although a fallible custom function is reachable from it, and goverter generated code instead of refusing", m.Name)
			return nil
		}
		if ee, ok := err.(*exec.ExitError); ok && ee.ExitCode() == 1 {
			r.NoErrOK = true
			continue
		}
		return &vnode.BuildError{Msg: "goverter run (noerr clause): " + err.Error() + "\n" + out}
	}
	return nil
}

// reachesLeaf: does the method's source type reach a fallible leaf?
func (s *Spec) reachesLeaf(m methodSpec) bool {
	id := 0
	fmt.Sscanf(strings.TrimLeft(m.In, "[]*mapstring"), "S%d", &id)
	n, ok := s.Structs[id]
	if !ok {
		return false
	}
	seen := map[int]bool{}
	var walk func(n *node) bool
	walk = func(n *node) bool {
		switch n.Kind {
		case "leaf":
			return true
		case "struct", "ustruct":
			if n.Kind == "struct" {
				if seen[n.ID] {
					return false
				}
				seen[n.ID] = true
				if n.MethodSrc || n.Ctor {
					return true
				}
			}
			for _, f := range n.Fields {
				if walk(f.N) {
					return true
				}
			}
		case "ref":
			return walk(s.Structs[n.ID])
		case "ptr", "slice", "tptr":
			return walk(n.Elem)
		case "map":
			return walk(n.Key) || walk(n.Elem)
		}
		return false
	}
	return walk(n)
}

// Replay re-runs a recorded convsim violation: the world is regenerated from its seed, the
// current /repo tree generates the converters again, and rapid replays the recorded
// fail file (the minimised value, schedule and fault set).
func Replay(path, repo, vd string) (int, error) {
	b, err := os.ReadFile(path)
	if err != nil {
		return 2, err
	}
	var rp convReplay
	if err := json.Unmarshal(b, &rp); err != nil {
		return 2, err
	}
	if rp.Class == "missing-error-result-accepted-matrix" {
		em, err := NewEngine(repo)
		if err != nil {
			return 2, err
		}
		defer em.Close()
		viol, _, _, err := em.noErrMatrix()
		if err != nil {
			return 2, err
		}
		if len(viol) > 0 {
			fmt.Printf("VIOLATION property=%s replay=%s\n  %s\n", rp.Property, path, strings.Join(viol, "\n  "))
			return 1, nil
		}
		fmt.Println("replay: no violation on the current tree")
		return 0, nil
	}
	e, err := NewEngine(repo)
	if err != nil {
		return 2, err
	}
	defer e.Close()
	// the recorded input files are authoritative (the world generator may have changed since)
	var r *worldResult
	if _, ok := rp.Files["run/main_test.go"]; ok {
		r, err = e.buildWorldFiles(nil, rp.Property, rp.Files, 0)
	} else {
		r, err = e.BuildWorld(NewSpec(rp.World, rp.Property), 0)
	}
	if err != nil {
		return 2, err
	}
	if r.Rejected {
		fmt.Printf("replay: goverter now refuses this world (no violation reproduced):\n%s\n", firstLines(r.RejectMsg, 10))
		return 0, nil
	}
	if rp.Class == "missing-error-result-accepted" {
		r.Spec = NewSpec(rp.World, rp.Property)
		if err := e.checkNoErrClause(r, 0); err != nil {
			return 2, err
		}
		if r.NoErrViol != "" {
			fmt.Printf("VIOLATION property=%s replay=%s\n  %s\n", rp.Property, path, r.NoErrViol)
			return 1, nil
		}
		fmt.Println("replay: no violation on the current tree")
		return 0, nil
	}
	ff := ""
	if rp.FailFile != "" {
		ff = filepath.Join(r.Dir, "replay.fail")
		if err := os.WriteFile(ff, []byte(rp.FailFile), 0o644); err != nil {
			return 2, err
		}
	}
	if ff == "" {
		if err := e.RunWorld(r, 300, rp.World, ""); err != nil {
			return 2, err
		}
	} else if err := e.RunWorld(r, 0, 0, ff); err != nil {
		return 2, err
	}
	if r.Failed {
		class, msg := classify(rp.Property, r.Output)
		fmt.Printf("VIOLATION property=%s replay=%s\n  class=%s\n  %s\n", rp.Property, path, class, msg)
		return 1, nil
	}
	fmt.Printf("replay of %s: no violation on the current tree (recorded: %s)\n", path, rp.Class)
	return 0, nil
}

// Digest builds a few worlds and runs each world binary with a fixed seed; the lines hold
// the pass/fail verdict and the complete statistics, which must be identical in every
// process for the same seed.
func Digest(seed uint64, repo string) ([]string, error) {
	e, err := NewEngine(repo)
	if err != nil {
		return nil, err
	}
	defer e.Close()
	var out []string
	for _, id := range []string{"C04", "C07"} {
		for i := 0; i < 2; i++ {
			s := NewSpec(worldSeed(seed, id, i), id)
			r, err := e.BuildWorld(s, i)
			if err != nil {
				return nil, err
			}
			if r.Rejected {
				out = append(out, fmt.Sprintf("conv %s world%d rejected", id, i))
				continue
			}
			if err := e.RunWorld(r, 40, worldSeed(seed, id, i), ""); err != nil {
				return nil, err
			}
			b, _ := json.Marshal(r.Stats)
			out = append(out, fmt.Sprintf("conv %s world%d failed=%v stats=%s", id, i, r.Failed, string(b)))
			_ = os.RemoveAll(r.Dir)
		}
	}
	return out, nil
}

var localVarRe = regexp.MustCompile(`(?m)^\tvar (\w+) ([^\s=]+)$`)

// SelftestC04Sensitivity plants hidden shared state into emitted code (the first local
// temporary of a generated function is hoisted to a package-level variable) and demands that
// the C04 schedule exploration reports it; the unplanted world must stay silent. This is the
// positive control for the scheduler + D-mode oracle (DESIGN 5.3).
func SelftestC04Sensitivity(seed uint64, repo string) (string, error) {
	e, err := NewEngine(repo)
	if err != nil {
		return "", err
	}
	defer e.Close()
	planted, caught := 0, 0
	var report []string
	for i := 0; planted < 4 && i < 40; i++ {
		s := NewSpec(worldSeed(seed, "C04", 1000+i), "C04")
		if s.SkipCopy {
			continue
		}
		did := false
		e.PostGen = func(files []string) error {
			for _, f := range files {
				b, err := os.ReadFile(f)
				if err != nil {
					return err
				}
				src := string(b)
				m := localVarRe.FindStringSubmatchIndex(src)
				if m == nil {
					continue
				}
				name, typ := src[m[2]:m[3]], src[m[4]:m[5]]
				src = src[:m[0]] + "\t" + name + " = *new(" + typ + ")" + src[m[1]:] + "\nvar " + name + " " + typ + "\n"
				did = true
				return os.WriteFile(f, []byte(src), 0o644)
			}
			return nil
		}
		r, err := e.BuildWorld(s, 5000+i)
		e.PostGen = nil
		if err != nil {
			return "", err
		}
		if r.Rejected || !did {
			_ = os.RemoveAll(r.Dir)
			continue
		}
		planted++
		if err := e.RunWorld(r, 300, worldSeed(seed, "C04", i), ""); err != nil {
			return "", err
		}
		class, msg := "", ""
		if r.Failed {
			class, msg = classify("C04", r.Output)
			if class != "harness-failure" && class != "panic" {
				caught++
			}
		}
		report = append(report, fmt.Sprintf("world %d (%s): planted package-level temporary; caught=%v class=%s %s", i, s.Format, r.Failed, class, trim(msg, 200)))
		_ = os.RemoveAll(r.Dir)
	}
	out := strings.Join(report, "\n")
	if planted == 0 {
		return out, &vnode.BuildError{Msg: "sensitivity self-test could not plant anything"}
	}
	if caught < planted {
		return out, &vnode.BuildError{Msg: fmt.Sprintf("C04 sensitivity: only %d of %d planted hidden-state mutants were caught\n%s", caught, planted, out)}
	}
	return out + fmt.Sprintf("\nc04 sensitivity ok: %d of %d planted hidden-state mutants caught", caught, planted), nil
}

// mergeStats adds the counters and distinct-set sizes of one process run to the total.
func mergeStats(a, b map[string]any) map[string]any {
	if a == nil {
		return b
	}
	for _, sec := range []string{"counters", "distinct"} {
		am, _ := a[sec].(map[string]any)
		bm, _ := b[sec].(map[string]any)
		if am == nil {
			am = map[string]any{}
		}
		for k, v := range bm {
			x, _ := am[k].(float64)
			y, _ := v.(float64)
			am[k] = x + y
		}
		a[sec] = am
	}
	if as, ok := a["samples"].([]any); ok {
		if bs, ok := b["samples"].([]any); ok && len(as) < 3 {
			a["samples"] = append(as, bs...)
		}
	} else {
		a["samples"] = b["samples"]
	}
	return a
}

// raceAux builds the world's harness with -race and runs TestRace (auxiliary, thorough tier).
func (e *Engine) raceAux(r *worldResult) error {
	bin := filepath.Join(r.Dir, "race.test")
	if out, err := goRun(r.Dir, nil, "go", "test", "-trimpath", "-race", "-c", "-o", bin, "./run"); err != nil {
		// the race detector may be unusable in a sandbox; that is not a violation
		_ = out
		return nil
	}
	cmd := exec.Command(bin, "-test.run", "TestRace", "-test.timeout", "20m")
	cmd.Dir = filepath.Join(r.Dir, "run")
	cmd.Env = append(os.Environ(), "GORACE=halt_on_error=1 exitcode=66", "CONVSIM_STATS="+filepath.Join(r.Dir, "race-stats.json"))
	var out bytes.Buffer
	cmd.Stdout = &out
	cmd.Stderr = &out
	err := cmd.Run()
	r.RaceRan = true
	if err != nil && strings.Contains(out.String(), "DATA RACE") {
		r.RaceReport = out.String()
	}
	return nil
}

// noErrMatrix enumerates the generation-time clause of C07 on minimal worlds: one fallible
// custom function of each kind at each position, with ignoreMissing on and off; the root
// method is declared WITHOUT an error result and goverter must refuse. The control (same
// world with the error result) must generate. Returns violations and the number of refused
// variants.
func (e *Engine) noErrMatrix() ([]string, int, int, error) {
	kinds := []string{"extend", "extendconv", "mapfunc", "methodsrc-auto", "methodsrc-map", "ctor"}
	positions := []string{"direct", "slice", "map", "ptr", "nested", "nested-slice"}
	type job struct {
		s    *Spec
		name string
	}
	var jobs []job
	for _, k := range kinds {
		for _, p := range positions {
			for _, im := range []bool{false, true} {
				format := "struct"
				if k != "extendconv" && (len(jobs)%3 == 1) {
					format = "function"
				}
				jobs = append(jobs, job{ManualSpec(k, p, im, format, []string{"none", "wrapErrors", "wrapErrorsUsing"}[len(jobs)%3]), fmt.Sprintf("%s/%s/ignoreMissing=%v/%s", k, p, im, format)})
			}
		}
	}
	var mu sync.Mutex
	var viol []string
	refused, controlsOK := 0, 0
	var ferr error
	var wg sync.WaitGroup
	sem := make(chan struct{}, 16)
	for i, j := range jobs {
		wg.Add(1)
		go func(i int, j job) {
			defer wg.Done()
			sem <- struct{}{}
			defer func() { <-sem }()
			dir := filepath.Join(e.Scratch, fmt.Sprintf("noerrm-%d", i))
			defer os.RemoveAll(dir)
			if err := materialise(dir, j.s); err != nil {
				mu.Lock()
				ferr = &vnode.BuildError{Msg: err.Error()}
				mu.Unlock()
				return
			}
			// control: with the error result the world must generate
			if _, err := goRun(dir, nil, e.Goverter, "gen", "./w"); err != nil {
				return // goverter does not accept this combination at all: nothing to check
			}
			mu.Lock()
			controlsOK++
			mu.Unlock()
			root := fmt.Sprintf("Conv%d", j.s.Roots[0].ID)
			src := j.s.ConverterSource()
			re := regexp.MustCompile(`(\s` + root + `(?: func)?\(source [^)]*\)) \(([^,]+), error\)`)
			loc := re.FindStringIndex(src)
			if loc == nil {
				return
			}
			conv := src[:loc[0]] + re.ReplaceAllString(src[loc[0]:loc[1]], "$1 $2") + src[loc[1]:]
			_ = writeFile(filepath.Join(dir, "w", "conv.go"), conv)
			_ = os.RemoveAll(filepath.Join(dir, "w", "generated"))
			_ = os.RemoveAll(filepath.Join(dir, "w", "twin"))
			out, err := goRun(dir, nil, e.Goverter, "gen", "./w")
			mu.Lock()
			defer mu.Unlock()
			if err == nil {
				viol = append(viol, fmt.Sprintf("C07 missing-error-result-accepted: minimal world %s: method %s has no error result although the only conversion of its kind is fallible, and goverter generated code (exit 0) instead of refusing", j.name, root))
				return
			}
			if ee, ok := err.(*exec.ExitError); ok && ee.ExitCode() == 1 {
				refused++
				return
			}
			ferr = &vnode.BuildError{Msg: "goverter run (noerr matrix): " + err.Error() + "\n" + out}
		}(i, j)
	}
	wg.Wait()
	sort.Strings(viol)
	return viol, refused, controlsOK, ferr
}
