// Package convsim is engine B (generated converters under a seeded scheduler and failing callees).
package convsim

import (
	"errors"

	"verif/internal/gensim"
)

func Check(id, tier string, seed uint64, repo, vd string) (*gensim.Outcome, error) {
	return nil, errors.New("todo")
}

func Replay(path, repo, vd string) (int, error) { return 2, errors.New("todo") }
