package convsim

import (
	"fmt"
	"os"
	"strconv"
	"testing"
)

func TestDumpWorld(t *testing.T) {
	i, _ := strconv.Atoi(os.Getenv("W"))
	s := NewSpec(worldSeed(1, "C07", i), "C07")
	fmt.Println(s.ConverterSource())
	if os.Getenv("TYPES") != "" {
		fmt.Println(s.TypesSource())
	}
}
