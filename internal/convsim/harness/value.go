// Package harness is the in-world part of engine B (convsim). It is copied into every
// scratch world module (import path of the runtime rewritten to "verifsim"), compiled into
// the world's test binary and drives the generated converters: value construction from a
// choice source, deep snapshots, pointer-graph comparison, the seeded scheduler, fault
// plans and the independent location walker.
package harness

import (
	"fmt"
	"math"
	"reflect"
	"sort"
	"unsafe"
)

// Chooser is the only source of choices for value construction.
type Chooser interface {
	Int(lo, hi int, label string) int
}

// Tape records choices so that the same shape can be rebuilt with other leaf values.
type Tape struct {
	Src  Chooser
	Vals []int
	pos  int
	play bool
}

func (t *Tape) Int(lo, hi int, label string) int {
	if t.play {
		if t.pos >= len(t.Vals) {
			panic("tape exhausted")
		}
		v := t.Vals[t.pos]
		t.pos++
		return v
	}
	v := t.Src.Int(lo, hi, label)
	t.Vals = append(t.Vals, v)
	return v
}

func (t *Tape) Replay() *Tape { return &Tape{Vals: t.Vals, play: true} }

// Builder constructs values of arbitrary types.
type Builder struct {
	C        Chooser
	Task     int  // leaf values are a function of (leaf counter, Task)
	Share    bool // reuse already built pointers / slices / maps (acyclic sharing)
	UniqueID bool // C07: every int field named ID gets a unique id; nothing is shared
	MaxDepth int
	Budget   int // remaining nodes
	leaf     int
	nextID   int
	pool     map[reflect.Type][]reflect.Value
	IDs      []int
	// Enums: type name → member count; such values are mostly declared members.
	Enums map[string]int
}

func NewBuilder(c Chooser, task int) *Builder {
	return &Builder{C: c, Task: task, MaxDepth: 6, Budget: 60, pool: map[reflect.Type][]reflect.Value{}}
}

func (b *Builder) Build(t reflect.Type) reflect.Value {
	return b.build(t, 0, "")
}

func (b *Builder) build(t reflect.Type, depth int, field string) reflect.Value {
	b.Budget--
	exhausted := b.Budget <= 0 || depth > b.MaxDepth
	v := reflect.New(t).Elem()
	switch t.Kind() {
	case reflect.Bool:
		b.leaf++
		v.SetBool((b.leaf+b.Task)&1 == 1)
	case reflect.Int, reflect.Int8, reflect.Int16, reflect.Int32, reflect.Int64:
		b.leaf++
		if n, ok := b.Enums[t.Name()]; ok && n > 0 {
			if pick := b.C.Int(0, n, "enum-member"); pick < n {
				v.SetInt(int64((pick + b.Task) % n))
				break
			}
		}
		if b.UniqueID && field == "ID" {
			b.nextID++
			v.SetInt(int64(b.nextID))
			b.IDs = append(b.IDs, b.nextID)
			break
		}
		x := int64(b.leaf*8 + b.Task + 1)
		if t.Kind() == reflect.Int8 {
			x = x % 127
		}
		v.SetInt(x)
	case reflect.Uint, reflect.Uint8, reflect.Uint16, reflect.Uint32, reflect.Uint64:
		b.leaf++
		x := uint64(b.leaf*8 + b.Task + 1)
		if t.Kind() == reflect.Uint8 {
			x = x % 251
		}
		v.SetUint(x)
	case reflect.Float32, reflect.Float64:
		b.leaf++
		v.SetFloat(float64(b.leaf) + 0.25*float64(b.Task+1))
	case reflect.String:
		b.leaf++
		v.SetString(fmt.Sprintf("s%d/t%d", b.leaf, b.Task))
	case reflect.Struct:
		for i := 0; i < t.NumField(); i++ {
			f := t.Field(i)
			fieldAt(v, i).Set(b.build(f.Type, depth+1, f.Name))
		}
	case reflect.Pointer:
		if exhausted || b.C.Int(0, 4, "ptr-nil") == 0 {
			return v // nil
		}
		if r, ok := b.reuse(t); ok {
			return r
		}
		p := reflect.New(t.Elem())
		p.Elem().Set(b.build(t.Elem(), depth+1, field))
		b.remember(t, p)
		return p
	case reflect.Slice:
		if exhausted {
			return v
		}
		switch b.C.Int(0, 6, "slice-shape") {
		case 0:
			return v // nil
		case 1:
			return reflect.MakeSlice(t, 0, 0) // non-nil empty
		case 2:
			// empty, non-nil, with spare capacity (buf[:0] of a reused buffer)
			return reflect.MakeSlice(t, 0, b.C.Int(1, 4, "empty-cap"))
		}
		if r, ok := b.reuse(t); ok {
			// also overlapping sub-slices of one backing array
			if r.Len() > 1 && b.C.Int(0, 1, "subslice") == 1 {
				lo := b.C.Int(0, r.Len()-1, "sub-lo")
				hi := b.C.Int(lo, r.Len(), "sub-hi")
				return r.Slice(lo, hi)
			}
			return r
		}
		n := b.C.Int(1, 3, "slice-len")
		extra := b.C.Int(0, 2, "slice-cap-extra")
		s := reflect.MakeSlice(t, n, n+extra)
		for i := 0; i < n; i++ {
			s.Index(i).Set(b.build(t.Elem(), depth+1, field))
		}
		b.remember(t, s)
		return s
	case reflect.Map:
		if exhausted {
			return v
		}
		switch b.C.Int(0, 5, "map-shape") {
		case 0:
			return v
		case 1:
			return reflect.MakeMap(t)
		}
		if r, ok := b.reuse(t); ok {
			return r
		}
		n := b.C.Int(1, 3, "map-len")
		m := reflect.MakeMapWithSize(t, n)
		for i := 0; i < n; i++ {
			k := b.key(t.Key(), i, depth)
			m.SetMapIndex(k, b.build(t.Elem(), depth+1, field))
		}
		b.remember(t, m)
		return m
	case reflect.Array:
		for i := 0; i < t.Len(); i++ {
			v.Index(i).Set(b.build(t.Elem(), depth+1, field))
		}
	case reflect.UnsafePointer:
		if b.C.Int(0, 2, "unsafe-ptr") != 0 {
			v.SetPointer(unsafe.Pointer(new(int64)))
		}
	case reflect.Interface:
		if t.NumMethod() == 0 {
			// any: a dynamic value that refers to memory (or a plain one, or nil)
			switch b.C.Int(0, 5, "iface-dyn") {
			case 1:
				v.Set(b.build(reflect.TypeOf((*int)(nil)), depth+1, field))
			case 2:
				v.Set(b.build(reflect.TypeOf([]int(nil)), depth+1, field))
			case 3:
				v.Set(b.build(reflect.TypeOf(map[string]int(nil)), depth+1, field))
			case 4:
				v.Set(b.build(reflect.TypeOf(0), depth+1, field))
			}
		}
	case reflect.Func, reflect.Chan:
		// left zero
	}
	return v
}

// key builds the i-th key of a map; keys do not depend on the task so that shape-equal
// values iterate over the same keys. For struct keys (C07 fallible key conversion) the
// ID field is unique.
func (b *Builder) key(t reflect.Type, i, depth int) reflect.Value {
	k := reflect.New(t).Elem()
	switch t.Kind() {
	case reflect.String:
		k.SetString(fmt.Sprintf("k%d", i+1))
	case reflect.Int, reflect.Int8, reflect.Int16, reflect.Int32, reflect.Int64:
		k.SetInt(int64(10 + i))
	case reflect.Uint, reflect.Uint8, reflect.Uint16, reflect.Uint32, reflect.Uint64:
		k.SetUint(uint64(10 + i))
	case reflect.Bool:
		k.SetBool(i%2 == 0)
	case reflect.Float32, reflect.Float64:
		k.SetFloat(float64(i) + 0.5)
	case reflect.Struct:
		save := b.Task
		b.Task = 0
		k.Set(b.keyStruct(t, i, depth))
		b.Task = save
	case reflect.Pointer:
		// pointer keys: always a fresh, non-nil pointee (distinct keys by identity)
		p := reflect.New(t.Elem())
		if t.Elem().Kind() == reflect.Struct {
			p.Elem().Set(b.keyStruct(t.Elem(), i, depth))
		} else {
			p.Elem().Set(b.build(t.Elem(), depth+1, ""))
		}
		k.Set(p)
	}
	return k
}

// keyStruct builds a struct key whose first int field identifies the key (so that keys stay
// distinct and comparable by content) and whose pointer fields are non-nil.
func (b *Builder) keyStruct(t reflect.Type, i, depth int) reflect.Value {
	v := reflect.New(t).Elem()
	first := true
	for f := 0; f < t.NumField(); f++ {
		ft := t.Field(f)
		switch {
		case first && (ft.Type.Kind() == reflect.Int || ft.Type.Kind() == reflect.Int64) && ft.Name != "ID":
			fieldAt(v, f).SetInt(int64(100 + i))
			first = false
		case ft.Type.Kind() == reflect.Pointer:
			p := reflect.New(ft.Type.Elem())
			p.Elem().Set(b.build(ft.Type.Elem(), depth+1, ft.Name))
			fieldAt(v, f).Set(p)
		default:
			fieldAt(v, f).Set(b.build(ft.Type, depth+1, ft.Name))
		}
	}
	return v
}

func (b *Builder) reuse(t reflect.Type) (reflect.Value, bool) {
	if !b.Share || b.UniqueID {
		return reflect.Value{}, false
	}
	p := b.pool[t]
	if len(p) == 0 {
		return reflect.Value{}, false
	}
	if b.C.Int(0, 2, "reuse") != 0 {
		return reflect.Value{}, false
	}
	return p[b.C.Int(0, len(p)-1, "reuse-which")], true
}

func (b *Builder) remember(t reflect.Type, v reflect.Value) {
	if b.Share {
		b.pool[t] = append(b.pool[t], v)
	}
}

// ---- access to all struct fields (unexported ones through unsafe) -----------------------

// addressable returns v itself when it can be addressed, else a copy that can (pointers,
// slices and maps inside still refer to the same memory).
func addressable(v reflect.Value) reflect.Value {
	if v.CanAddr() {
		return v
	}
	c := reflect.New(v.Type()).Elem()
	c.Set(v)
	return c
}

// fieldAt returns field i of an ADDRESSABLE struct value in a form that can be read and —
// if the struct is settable memory — written, also for unexported fields.
func fieldAt(v reflect.Value, i int) reflect.Value {
	f := v.Field(i)
	if v.Type().Field(i).IsExported() {
		return f
	}
	return reflect.NewAt(f.Type(), unsafe.Pointer(f.UnsafeAddr())).Elem()
}

// ---- deep clone / equality ------------------------------------------------------------

// Clone materialises v into fresh memory (tree clone: internal sharing is expanded).
func Clone(v reflect.Value) reflect.Value {
	out := reflect.New(v.Type()).Elem()
	switch v.Kind() {
	case reflect.Pointer:
		if v.IsNil() {
			return out
		}
		p := reflect.New(v.Type().Elem())
		p.Elem().Set(Clone(v.Elem()))
		return p
	case reflect.Slice:
		if v.IsNil() {
			return out
		}
		s := reflect.MakeSlice(v.Type(), v.Len(), v.Len())
		for i := 0; i < v.Len(); i++ {
			s.Index(i).Set(Clone(v.Index(i)))
		}
		return s
	case reflect.Map:
		if v.IsNil() {
			return out
		}
		m := reflect.MakeMapWithSize(v.Type(), v.Len())
		it := v.MapRange()
		for it.Next() {
			m.SetMapIndex(Clone(it.Key()), Clone(it.Value()))
		}
		return m
	case reflect.Struct:
		av := addressable(v)
		for i := 0; i < v.NumField(); i++ {
			fieldAt(out, i).Set(Clone(fieldAt(av, i)))
		}
		return out
	case reflect.Array:
		for i := 0; i < v.Len(); i++ {
			out.Index(i).Set(Clone(v.Index(i)))
		}
		return out
	case reflect.Interface:
		if v.IsNil() {
			return out
		}
		out.Set(Clone(v.Elem()))
		return out
	default:
		out.Set(v)
		return out
	}
}

// Equal compares two values of the same type structurally: floats bitwise, nil and empty
// containers distinct, pointers by pointee. It returns the path of the first difference.
func Equal(a, b reflect.Value) (bool, string) { return equal(a, b, "") }

func equal(a, b reflect.Value, path string) (bool, string) {
	if a.Type() != b.Type() {
		return false, path + ": type " + a.Type().String() + " vs " + b.Type().String()
	}
	switch a.Kind() {
	case reflect.Pointer:
		if a.IsNil() != b.IsNil() {
			return false, path + ": nil-ness differs"
		}
		if a.IsNil() {
			return true, ""
		}
		return equal(a.Elem(), b.Elem(), path+".*")
	case reflect.Slice:
		if a.IsNil() != b.IsNil() {
			return false, path + ": nil-ness differs"
		}
		if a.Len() != b.Len() {
			return false, fmt.Sprintf("%s: len %d vs %d", path, a.Len(), b.Len())
		}
		for i := 0; i < a.Len(); i++ {
			if ok, p := equal(a.Index(i), b.Index(i), fmt.Sprintf("%s[%d]", path, i)); !ok {
				return false, p
			}
		}
		return true, ""
	case reflect.Array:
		for i := 0; i < a.Len(); i++ {
			if ok, p := equal(a.Index(i), b.Index(i), fmt.Sprintf("%s[%d]", path, i)); !ok {
				return false, p
			}
		}
		return true, ""
	case reflect.Map:
		if a.IsNil() != b.IsNil() {
			return false, path + ": nil-ness differs"
		}
		if a.Len() != b.Len() {
			return false, fmt.Sprintf("%s: map len %d vs %d", path, a.Len(), b.Len())
		}
		for _, k := range SortedKeys(a) {
			bv := b.MapIndex(k)
			if !bv.IsValid() {
				// keys holding pointers are equal by content, not by identity
				for _, kb := range b.MapKeys() {
					if ok, _ := equal(k, kb, ""); ok {
						bv = b.MapIndex(kb)
						break
					}
				}
			}
			if !bv.IsValid() {
				return false, fmt.Sprintf("%s: key %s missing", path, keyText(k))
			}
			if ok, p := equal(a.MapIndex(k), bv, fmt.Sprintf("%s[%s]", path, keyText(k))); !ok {
				return false, p
			}
		}
		return true, ""
	case reflect.Struct:
		aa, ab := addressable(a), addressable(b)
		for i := 0; i < a.NumField(); i++ {
			if ok, p := equal(fieldAt(aa, i), fieldAt(ab, i), path+"."+a.Type().Field(i).Name); !ok {
				return false, p
			}
		}
		return true, ""
	case reflect.Float32, reflect.Float64:
		if math.Float64bits(a.Float()) != math.Float64bits(b.Float()) {
			return false, fmt.Sprintf("%s: %v vs %v", path, a.Float(), b.Float())
		}
		return true, ""
	case reflect.Interface:
		if a.IsNil() != b.IsNil() {
			return false, path + ": nil-ness differs"
		}
		if a.IsNil() {
			return true, ""
		}
		return equal(a.Elem(), b.Elem(), path)
	case reflect.Func, reflect.Chan, reflect.UnsafePointer:
		return true, ""
	default:
		if a.Interface() != b.Interface() {
			return false, fmt.Sprintf("%s: %v vs %v", path, a.Interface(), b.Interface())
		}
		return true, ""
	}
}

// keyText renders a map key by content (pointers are followed), so that the text does not
// depend on addresses.
func keyText(k reflect.Value) string {
	switch k.Kind() {
	case reflect.Pointer:
		if k.IsNil() {
			return "nil"
		}
		return "&" + keyText(k.Elem())
	case reflect.Struct:
		s := "{"
		for i := 0; i < k.NumField(); i++ {
			if k.Type().Field(i).IsExported() {
				s += keyText(k.Field(i)) + " "
			}
		}
		return s + "}"
	default:
		return fmt.Sprintf("%#v", k.Interface())
	}
}

// SortedKeys returns the keys of a map in a canonical order (by content).
func SortedKeys(m reflect.Value) []reflect.Value {
	ks := m.MapKeys()
	sort.SliceStable(ks, func(i, j int) bool { return keyText(ks[i]) < keyText(ks[j]) })
	return ks
}

// ---- memory graph ---------------------------------------------------------------------

// Region is a piece of mutable memory reachable from a value.
type Region struct {
	Path string
	Kind string // ptr | slice | map
	Lo   uintptr
	Hi   uintptr // exclusive; for maps Hi == Lo+1 (identity only)
	Type reflect.Type
	Len  int
	Cap  int
}

// Regions lists every pointer target of non-zero size, slice backing array (full
// capacity) and map reachable from v, in deterministic traversal order.
func Regions(v reflect.Value) []Region {
	var out []Region
	seen := map[string]bool{}
	var walk func(v reflect.Value, path string)
	walk = func(v reflect.Value, path string) {
		switch v.Kind() {
		case reflect.Pointer:
			if v.IsNil() {
				return
			}
			sz := v.Type().Elem().Size()
			lo := v.Pointer()
			if sz > 0 {
				out = append(out, Region{Path: path, Kind: "ptr", Lo: lo, Hi: lo + sz, Type: v.Type()})
			}
			key := fmt.Sprintf("p%x/%s", lo, v.Type())
			if seen[key] {
				return
			}
			seen[key] = true
			walk(v.Elem(), path+".*")
		case reflect.Slice:
			if v.IsNil() {
				return
			}
			es := v.Type().Elem().Size()
			lo := v.Pointer()
			if es > 0 && v.Cap() > 0 {
				out = append(out, Region{Path: path, Kind: "slice", Lo: lo, Hi: lo + es*uintptr(v.Cap()), Type: v.Type(), Len: v.Len(), Cap: v.Cap()})
			}
			for i := 0; i < v.Len(); i++ {
				walk(v.Index(i), fmt.Sprintf("%s[%d]", path, i))
			}
		case reflect.Map:
			if v.IsNil() {
				return
			}
			lo := uintptr(v.UnsafePointer())
			out = append(out, Region{Path: path, Kind: "map", Lo: lo, Hi: lo + 1, Type: v.Type(), Len: v.Len()})
			key := fmt.Sprintf("m%x", lo)
			if seen[key] {
				return
			}
			seen[key] = true
			for _, k := range SortedKeys(v) {
				walk(k, fmt.Sprintf("%s<key %s>", path, keyText(k)))
				walk(v.MapIndex(k), fmt.Sprintf("%s[%s]", path, keyText(k)))
			}
		case reflect.Struct:
			av := addressable(v)
			for i := 0; i < v.NumField(); i++ {
				walk(fieldAt(av, i), path+"."+v.Type().Field(i).Name)
			}
		case reflect.Array:
			for i := 0; i < v.Len(); i++ {
				walk(v.Index(i), fmt.Sprintf("%s[%d]", path, i))
			}
		case reflect.Interface:
			if !v.IsNil() {
				walk(v.Elem(), path)
			}
		case reflect.UnsafePointer:
			if lo := v.Pointer(); lo != 0 {
				out = append(out, Region{Path: path, Kind: "unsafeptr", Lo: lo, Hi: lo + 1, Type: v.Type()})
			}
		}
	}
	walk(v, "")
	return out
}

// WithoutUnsafe drops the targets of unsafe.Pointer values (which no generated code could
// copy) from a region list; OnlyUnsafe keeps just those.
func WithoutUnsafe(rs []Region) []Region {
	var out []Region
	for _, r := range rs {
		if r.Kind != "unsafeptr" {
			out = append(out, r)
		}
	}
	return out
}

func OnlyUnsafe(rs []Region) []Region {
	var out []Region
	for _, r := range rs {
		if r.Kind == "unsafeptr" {
			out = append(out, r)
		}
	}
	return out
}

// SameGraph compares two region lists (addresses, lengths, capacities, order).
func SameGraph(a, b []Region) (bool, string) {
	if len(a) != len(b) {
		return false, fmt.Sprintf("%d vs %d reachable regions", len(a), len(b))
	}
	for i := range a {
		if a[i].Lo != b[i].Lo || a[i].Hi != b[i].Hi || a[i].Kind != b[i].Kind || a[i].Len != b[i].Len || a[i].Cap != b[i].Cap || a[i].Path != b[i].Path {
			return false, fmt.Sprintf("region %s changed", a[i].Path)
		}
	}
	return true, ""
}

// Overlap returns the first pair of regions of a and b that share memory.
func Overlap(a, b []Region) (*Region, *Region) {
	for i := range a {
		for j := range b {
			if a[i].Kind == "map" || b[j].Kind == "map" {
				if a[i].Kind == b[j].Kind && a[i].Lo == b[j].Lo {
					return &a[i], &b[j]
				}
				continue
			}
			if a[i].Lo < b[j].Hi && b[j].Lo < a[i].Hi {
				return &a[i], &b[j]
			}
		}
	}
	return nil, nil
}

// Scribble overwrites every mutable location reachable from v (pointer targets, slice
// elements up to len, map entries): basic leaves are changed, maps get an extra entry
// where possible. Top-level non-addressable parts of v itself are not touched.
func Scribble(v reflect.Value) {
	seen := map[uintptr]bool{}
	var all func(v reflect.Value) // v settable
	var reach func(v reflect.Value)
	all = func(v reflect.Value) {
		switch v.Kind() {
		case reflect.Bool:
			v.SetBool(!v.Bool())
		case reflect.Int, reflect.Int8, reflect.Int16, reflect.Int32, reflect.Int64:
			v.SetInt(v.Int() ^ 0x55)
		case reflect.Uint, reflect.Uint8, reflect.Uint16, reflect.Uint32, reflect.Uint64:
			v.SetUint(v.Uint() ^ 0x55)
		case reflect.Float32, reflect.Float64:
			v.SetFloat(v.Float() + 1000.5)
		case reflect.String:
			v.SetString(v.String() + "!scribbled")
		case reflect.Struct:
			for i := 0; i < v.NumField(); i++ {
				all(fieldAt(v, i))
			}
		case reflect.Array:
			for i := 0; i < v.Len(); i++ {
				all(v.Index(i))
			}
		case reflect.Pointer, reflect.Slice, reflect.Map:
			reach(v)
			v.Set(reflect.Zero(v.Type()))
		}
	}
	reach = func(v reflect.Value) {
		switch v.Kind() {
		case reflect.Pointer:
			if v.IsNil() || seen[v.Pointer()] {
				return
			}
			if v.Type().Elem().Size() > 0 {
				seen[v.Pointer()] = true
			}
			all(v.Elem())
		case reflect.Slice:
			if v.IsNil() {
				return
			}
			for i := 0; i < v.Len(); i++ {
				all(v.Index(i))
			}
		case reflect.Map:
			if v.IsNil() || seen[uintptr(v.UnsafePointer())] {
				return
			}
			seen[uintptr(v.UnsafePointer())] = true
			for _, k := range v.MapKeys() {
				reach(k) // memory behind pointer-holding keys
				e := reflect.New(v.Type().Elem()).Elem()
				e.Set(v.MapIndex(k))
				all(e)
				v.SetMapIndex(k, e)
			}
		case reflect.Struct:
			av := addressable(v)
			for i := 0; i < v.NumField(); i++ {
				reach(fieldAt(av, i))
			}
		case reflect.Array:
			for i := 0; i < v.Len(); i++ {
				reach(v.Index(i))
			}
		case reflect.Interface:
			if !v.IsNil() {
				reach(v.Elem())
			}
		}
	}
	reach(v)
}

var _ = unsafe.Pointer(nil)
