package harness

import (
	"encoding/json"
	"errors"
	"fmt"
	"hash/fnv"
	"os"
	"reflect"
	"regexp"
	"sort"
	"strconv"
	"strings"
	"sync"
	"sync/atomic"
	"testing"

	"pgregory.net/rapid"

	"verif/internal/rt/verifsim"
)

// Method is one generated conversion function under test.
type Method struct {
	Name string
	Fn   any
	Twin any // C07: the infallible twin
	// SkipCopy (C04): skipCopySameType is in effect for this method (converter level or on
	// the method itself): sharing is allowed, but only at identical-type positions.
	SkipCopy bool
	// WrapOff (C07): the method carries `goverter:wrapErrors no` in a wrapErrors world; the
	// location oracle does not apply to it.
	WrapOff bool
}

// World describes the world to the generic harness.
type World struct {
	Methods  []Method
	SkipCopy bool
	Wrap     string                       // none | wrapErrors | wrapErrorsUsing
	Renames  map[string]map[string]string // source struct type name → source field → target field
	// AutoMap: source struct type name → source-only field whose inner fields goverter:autoMap
	// lifts into the enclosing target struct.
	AutoMap map[string]map[string]bool
	LeafFn  map[string]string // source leaf type name → custom function name
	// MethodSrc: source struct type → list of (fault function name, target field) for
	// fallible source methods; Ctor: source struct type → fallible default constructor.
	MethodSrc map[string][][3]string
	Ctor      map[string]string
	// Enums: source enum type name → number of declared members (values 0..n-1).
	Enums map[string]int
	// WrapOffTypes: source struct type names whose declared method carries
	// `goverter:wrapErrors no`.
	WrapOffTypes map[string]bool
}

// innermostStruct remembers, per fault key, the innermost named source struct type on the
// way to the failing element (filled by Locations).
var innermostStruct = map[verifsim.FaultKey]string{}

// ---- statistics -------------------------------------------------------------------------

var (
	statMu   sync.Mutex
	counters = map[string]int64{}
	sets     = map[string]map[uint64]struct{}{}
	samples  []any
)

func Count(k string, n int64) {
	statMu.Lock()
	counters[k] += n
	statMu.Unlock()
}

func Distinct(set string, h uint64) {
	statMu.Lock()
	m := sets[set]
	if m == nil {
		m = map[uint64]struct{}{}
		sets[set] = m
	}
	m[h] = struct{}{}
	statMu.Unlock()
}

func Sample(v any) {
	statMu.Lock()
	if len(samples) < 3 {
		samples = append(samples, v)
	}
	statMu.Unlock()
}

// Main runs the tests and dumps the statistics to $CONVSIM_STATS.
func Main(m *testing.M) {
	code := m.Run()
	if p := os.Getenv("CONVSIM_STATS"); p != "" {
		statMu.Lock()
		out := map[string]any{"counters": counters, "samples": samples}
		sz := map[string]int{}
		for k, v := range sets {
			sz[k] = len(v)
		}
		out["distinct"] = sz
		b, _ := json.Marshal(out)
		statMu.Unlock()
		_ = os.WriteFile(p, b, 0o644)
	}
	os.Exit(code)
}

type rapidChooser struct{ t *rapid.T }

func (r rapidChooser) Int(lo, hi int, label string) int {
	if hi <= lo {
		return lo
	}
	return rapid.IntRange(lo, hi).Draw(r.t, label)
}

func call(fn any, src reflect.Value) (res reflect.Value, err error, pan any) {
	defer func() {
		if r := recover(); r != nil {
			pan = r
		}
	}()
	ft := reflect.TypeOf(fn)
	if ft.NumIn() == 2 {
		// update-signature method: Name(source S, target *T) [error]
		tgt := reflect.New(ft.In(1).Elem())
		out := reflect.ValueOf(fn).Call([]reflect.Value{src, tgt})
		res = tgt.Elem()
		if len(out) > 0 && !out[0].IsNil() {
			err = out[0].Interface().(error)
		}
		return
	}
	out := reflect.ValueOf(fn).Call([]reflect.Value{src})
	res = out[0]
	if len(out) > 1 && !out[1].IsNil() {
		err = out[1].Interface().(error)
	}
	return
}

func hashOf(parts ...any) uint64 {
	h := fnv.New64a()
	fmt.Fprint(h, parts...)
	return h.Sum64()
}

// ---- C04 --------------------------------------------------------------------------------

// RunC04 explores interleavings of concurrent calls of every method.
var unsafeShared atomic.Value

func RunC04(t *testing.T, w *World) {
	for _, m := range w.Methods {
		m := m
		t.Run(m.Name, rapid.MakeCheck(func(rt *rapid.T) { execC04(rt, w, m) }))
	}
	if msg, ok := unsafeShared.Load().(string); ok && !t.Failed() {
		t.Errorf("C04 shared-memory-unsafe-pointer-field: %s", msg)
	}
}

func execC04(rt *rapid.T, w *World, m Method) {
	srcT := reflect.TypeOf(m.Fn).In(0)
	nTasks := rapid.IntRange(1, 4).Draw(rt, "tasks")
	distinct := nTasks > 1 && rapid.IntRange(0, 1).Draw(rt, "mode-D") == 1
	orderSeed := rapid.Uint64().Draw(rt, "map-order-seed")
	verifsim.SetPlan(verifsim.Plan{Seed: orderSeed, Order: verifsim.OrderPlan{Mode: "perm"}})

	tape := &Tape{Src: rapidChooser{rt}}
	b0 := NewBuilder(tape, 0)
	b0.Share = true
	b0.Enums = w.Enums
	sources := make([]reflect.Value, nTasks)
	sources[0] = b0.Build(srcT)
	for i := 1; i < nTasks; i++ {
		if distinct {
			bi := NewBuilder(tape.Replay(), i)
			bi.Share = true
			bi.Enums = w.Enums
			sources[i] = bi.Build(srcT)
		} else {
			sources[i] = sources[0]
		}
	}
	nSrc := 1
	if distinct {
		nSrc = nTasks
	}
	srcOf := func(task int) int {
		if distinct {
			return task
		}
		return 0
	}
	// snapshots before anything runs; the sequential, materialised references are computed
	// AFTER the concurrent run (the sources are proven unchanged by then), so that in a fresh
	// process the very first calls of the method are the concurrent ones.
	refs := make([]reflect.Value, nSrc)
	snaps := make([]reflect.Value, nSrc)
	graphs := make([][]Region, nSrc)
	for i := 0; i < nSrc; i++ {
		snaps[i] = Clone(sources[i])
		graphs[i] = Regions(sources[i])
	}
	// the schedule
	pct := rapid.IntRange(0, 1).Draw(rt, "sched-pct") == 1
	prio := make([]int, nTasks)
	for i := range prio {
		prio[i] = i
	}
	var changeAt map[int]bool
	if pct {
		for i := nTasks - 1; i > 0; i-- {
			j := rapid.IntRange(0, i).Draw(rt, "prio")
			prio[i], prio[j] = prio[j], prio[i]
		}
		changeAt = map[int]bool{}
		k := rapid.IntRange(0, 4).Draw(rt, "preemptions")
		for i := 0; i < k; i++ {
			changeAt[rapid.IntRange(1, 300).Draw(rt, "preempt-at")] = true
		}
	}
	results := make([]reflect.Value, nTasks)
	clones := make([]reflect.Value, nTasks)
	last := -1
	switches := 0
	s := &verifsim.Sched{MaxSteps: 6000}
	s.Choose = func(runnable []int, step int) int {
		if pct {
			if changeAt[step] && last >= 0 {
				prio[last] = -step // demote the running task
			}
			best := 0
			for k, tsk := range runnable {
				if prio[tsk] > prio[runnable[best]] {
					best = k
				}
			}
			return best
		}
		return rapid.IntRange(0, len(runnable)-1).Draw(rt, "pick")
	}
	s.AfterStep = func(step, task, site int) error {
		if last >= 0 && last != task {
			switches++
		}
		last = task
		for i := 0; i < nSrc; i++ {
			if ok, p := Equal(sources[i], snaps[i]); !ok {
				return fmt.Errorf("C04 source-modified: source %d differs from its snapshot at %s after step %d (task %d parked at site %d)", i, p, step, task, site)
			}
			if ok, p := SameGraph(Regions(sources[i]), graphs[i]); !ok {
				return fmt.Errorf("C04 source-graph-changed: %s after step %d (task %d)", p, step, task)
			}
		}
		return nil
	}
	tasks := make([]func(), nTasks)
	for i := range tasks {
		i := i
		tasks[i] = func() {
			r, _, pan := call(m.Fn, sources[srcOf(i)])
			if pan != nil {
				panic(pan)
			}
			results[i] = r
			clones[i] = Clone(r)
		}
	}
	err := s.Run(tasks)
	Count("c04.executions", 1)
	Count("c04.steps", int64(len(s.Trace)))
	Count("c04.context_switches", int64(switches))
	if distinct {
		Count("c04.mode_D", 1)
	} else {
		Count("c04.mode_S", 1)
	}
	if switches > 0 {
		h := fnv.New64a()
		lastT := -1
		for _, st := range s.Trace {
			if st.Task != lastT {
				fmt.Fprintf(h, "%d@%d,", st.Task, st.Site)
				lastT = st.Task
			}
		}
		Distinct("c04.interleavings", hashOf(m.Name, h.Sum64(), tape.Vals, distinct))
		Distinct("c04.nontrivial", hashOf(m.Name, h.Sum64(), tape.Vals, distinct, orderSeed))
	}
	if err != nil {
		if strings.Contains(err.Error(), "panicked") && !strings.Contains(err.Error(), "concurrent map") {
			// a panic that also happens in an uninterrupted call is C02's subject
			if _, _, pan := call(m.Fn, Clone(sources[0])); pan != nil {
				Count("c04.skipped_panicking_input", 1)
				rt.Skip()
			}
		}
		rt.Fatalf("%v", err)
	}
	for i := 0; i < nSrc; i++ {
		r, cerr, pan := call(m.Fn, sources[i])
		if pan != nil {
			Count("c04.skipped_panicking_input", 1)
			rt.Skip()
		}
		if cerr != nil {
			rt.Fatalf("C04 world has a fallible method %s: %v", m.Name, cerr)
		}
		refs[i] = Clone(r)
		if ok, p := Equal(sources[i], snaps[i]); !ok {
			rt.Fatalf("C04 source-modified: %s changed its source during an uninterrupted call at %s", m.Name, p)
		}
	}
	shared := 0
	for i := 0; i < nTasks; i++ {
		ref := refs[srcOf(i)]
		if ok, p := Equal(clones[i], ref); !ok {
			rt.Fatalf("C04 schedule-dependent-result: task %d of %d (%s sources) returned a value that differs from the uninterrupted call at %s", i, nTasks, map[bool]string{true: "distinct", false: "one shared"}[distinct], p)
		}
		if ok, p := Equal(results[i], ref); !ok {
			rt.Fatalf("C04 result-overwritten: task %d's result changed after it returned, at %s", i, p)
		}
		src := sources[srcOf(i)]
		sr, rr := Regions(src), Regions(results[i])
		if a, b := Overlap(OnlyUnsafe(sr), OnlyUnsafe(rr)); a != nil {
			// known finding F22: an unsafe.Pointer is a basic type for goverter and is assigned
			// as is; reported once per world at the end so that every other check still runs
			Count("c04.unsafe_pointer_target_shared", 1)
			unsafeShared.CompareAndSwap(nil, fmt.Sprintf("source%s and result%s hold the same unsafe.Pointer target (method %s)", a.Path, b.Path, m.Name))
		}
		sr, rr = WithoutUnsafe(sr), WithoutUnsafe(rr)
		if a, b := Overlap(sr, rr); a != nil {
			if !m.SkipCopy {
				rt.Fatalf("C04 shared-memory: source%s and result%s share memory (%s %s)", a.Path, b.Path, a.Kind, a.Type)
			}
			// skipCopySameType: sharing only where the types are identical
			for x := range sr {
				for y := range rr {
					ov := false
					if sr[x].Kind == "map" || rr[y].Kind == "map" {
						ov = sr[x].Kind == rr[y].Kind && sr[x].Lo == rr[y].Lo
					} else {
						ov = sr[x].Lo < rr[y].Hi && rr[y].Lo < sr[x].Hi
					}
					if ov {
						shared++
						if sr[x].Type != rr[y].Type {
							rt.Fatalf("C04 skipcopy-sharing-different-types: source%s (%s) and result%s (%s) share memory", sr[x].Path, sr[x].Type, rr[y].Path, rr[y].Type)
						}
					}
				}
			}
		}
	}
	if m.SkipCopy {
		Count("c04.skipcopy_executions", 1)
		if shared > 0 {
			Count("c04.skipcopy_executions_with_sharing", 1)
		}
		return
	}
	// behavioural twin: scribble over every result, sources must not move
	for i := 0; i < nTasks; i++ {
		Scribble(results[i])
	}
	for i := 0; i < nSrc; i++ {
		if ok, p := Equal(sources[i], snaps[i]); !ok {
			rt.Fatalf("C04 mutation-leak: overwriting the results changed source %d at %s", i, p)
		}
	}
	// and vice versa
	for i := 0; i < nSrc; i++ {
		r, _, _ := call(m.Fn, sources[i])
		rc := Clone(r)
		Scribble(sources[i])
		if ok, p := Equal(r, rc); !ok {
			rt.Fatalf("C04 mutation-leak: overwriting the source changed an earlier result at %s", p)
		}
	}
}

// ---- C07 --------------------------------------------------------------------------------

// Locations computes, for every leaf reachable in a source value, the target location path
// of the conversion of that leaf — independently of goverter, from the world description.
func Locations(w *World, v reflect.Value) map[verifsim.FaultKey][]verifsim.WrapElem {
	out := map[verifsim.FaultKey][]verifsim.WrapElem{}
	innermostStruct = map[verifsim.FaultKey]string{}
	var named []string
	record := func(k verifsim.FaultKey, path []verifsim.WrapElem, self string) {
		out[k] = path
		switch {
		case self != "":
			innermostStruct[k] = self
		case len(named) > 0:
			innermostStruct[k] = named[len(named)-1]
		}
	}
	var walk func(v reflect.Value, path []verifsim.WrapElem)
	ext := func(path []verifsim.WrapElem, e verifsim.WrapElem) []verifsim.WrapElem {
		return append(append([]verifsim.WrapElem(nil), path...), e)
	}
	walk = func(v reflect.Value, path []verifsim.WrapElem) {
		t := v.Type()
		switch v.Kind() {
		case reflect.Int:
			// a fallible leaf between named basic types, keyed by its value
			if fn, ok := w.LeafFn[t.Name()]; ok {
				record(verifsim.FaultKey{Fn: fn, ID: int(v.Int())}, path, "")
			}
		case reflect.Struct:
			if fn, ok := w.LeafFn[t.Name()]; ok {
				id := int(v.FieldByName("ID").Int())
				record(verifsim.FaultKey{Fn: fn, ID: id}, path, "")
				return
			}
			if fn, ok := w.Ctor[t.Name()]; ok {
				// the constructor is called at the top of this struct's method with an empty
				// path; the last element of the location is contributed by the PARENT's method
				record(verifsim.FaultKey{Fn: fn, ID: int(v.FieldByName("ID").Int())}, path, "")
			}
			for _, ms := range w.MethodSrc[t.Name()] {
				id := int(v.FieldByName("ID").Int())
				if ms[2] == "calc" {
					id = id*7 + 1 // the map|FUNC function is keyed by the value the method returns
				}
				record(verifsim.FaultKey{Fn: ms[0], ID: id}, ext(path, verifsim.WrapElem{Kind: "field", Value: ms[1]}), t.Name())
			}
			if t.Name() != "" && !strings.HasPrefix(t.Name(), "SAuto") {
				named = append(named, t.Name())
				defer func() { named = named[:len(named)-1] }()
			}
			for i := 0; i < t.NumField(); i++ {
				name := t.Field(i).Name
				if w.AutoMap[t.Name()][name] {
					// goverter:autoMap: the nested struct's fields are fields of the target
					walk(v.Field(i), path)
					continue
				}
				if r, ok := w.Renames[t.Name()][name]; ok {
					name = r
				}
				walk(v.Field(i), ext(path, verifsim.WrapElem{Kind: "field", Value: name}))
			}
		case reflect.Pointer:
			if !v.IsNil() {
				walk(v.Elem(), path)
			}
		case reflect.Slice, reflect.Array:
			for i := 0; i < v.Len(); i++ {
				walk(v.Index(i), ext(path, verifsim.WrapElem{Kind: "index", Value: strconv.Itoa(i)}))
			}
		case reflect.Map:
			for _, k := range SortedKeys(v) {
				// the SOURCE map key, with its type: a path that carries the converted key
				// instead is wrong even when both print alike
				p := ext(path, verifsim.WrapElem{Kind: "key", Value: fmt.Sprintf("%T(%v)", k.Interface(), k.Interface())})
				walk(k, p)
				walk(v.MapIndex(k), p)
			}
		}
	}
	walk(v, nil)
	return out
}

var wrapPrefix = regexp.MustCompile(`^error setting (?:field (\S+)|index (\d+)): `)

func fmtPath(p []verifsim.WrapElem) string {
	var s []string
	for _, e := range p {
		s = append(s, e.Kind+"("+e.Value+")")
	}
	return strings.Join(s, ".")
}

// RunC07 enumerates single faults (and samples fault sets) for every method.
func RunC07(t *testing.T, w *World) {
	for _, m := range w.Methods {
		m := m
		t.Run(m.Name, rapid.MakeCheck(func(rt *rapid.T) { execC07(rt, w, m) }))
	}
}

func execC07(rt *rapid.T, w *World, m Method) {
	srcT := reflect.TypeOf(m.Fn).In(0)
	b := NewBuilder(rapidChooser{rt}, 0)
	b.UniqueID = true
	b.MaxDepth = 20 // long chains of unnamed containers (location paths beyond 8 elements)
	b.Budget = 140
	src := b.Build(srcT)
	orderSeed := rapid.Uint64().Draw(rt, "map-order-seed")
	setOrder := func(k uint64) {
		verifsim.SetPlan(verifsim.Plan{Seed: orderSeed + k, Order: verifsim.OrderPlan{Mode: "perm"}})
	}
	locs := Locations(w, src)

	// fault-free dry run
	setOrder(0)
	verifsim.ResetFaults(nil)
	res, err, pan := call(m.Fn, src)
	if pan != nil {
		Count("c07.skipped_panicking_input", 1)
		rt.Skip()
	}
	Count("c07.executions", 1)
	if err != nil {
		rt.Fatalf("C07 spurious-error: no custom function failed but %s returned %v", m.Name, err)
	}
	reached := verifsim.ReachedCalls()
	if m.Twin != nil {
		tw, _, tpan := call(m.Twin, src)
		if tpan == nil {
			if ok, p := Equal(res, tw); !ok {
				rt.Fatalf("C07 result-differs-from-twin: fault-free result of %s differs from the infallible twin at %s", m.Name, p)
			}
			Count("c07.twin_compared", 1)
		}
	}
	for _, k := range reached {
		if _, ok := locs[k]; !ok {
			rt.Fatalf("harness: reached call %v has no location from the walker", k)
		}
	}
	Count("c07.reached_calls", int64(len(reached)))
	if len(reached) == 0 {
		return
	}
	check := func(plan []verifsim.FaultKey, k uint64) {
		setOrder(k)
		verifsim.ResetFaults(plan)
		_, err, pan := call(m.Fn, src)
		if pan != nil {
			rt.Fatalf("C07 panic under fault %v: %v", plan, pan)
		}
		fired := verifsim.FiredCalls()
		Count("c07.fault_runs", 1)
		Count("c07.faults_fired", int64(len(fired)))
		if len(fired) == 0 {
			rt.Fatalf("harness: fault %v was planned inside reached work but did not fire", plan)
		}
		if err == nil {
			rt.Fatalf("C07 error-swallowed: custom function call(s) %v failed but %s returned a nil error", fired, m.Name)
		}
		var inj *verifsim.InjectedError
		if !errors.As(err, &inj) {
			rt.Fatalf("C07 error-not-wrapped: %s returned %q which does not wrap the injected error of %v", m.Name, err.Error(), fired)
		}
		isFired := false
		for _, f := range fired {
			if f == inj.Key {
				isFired = true
			}
		}
		if !isFired {
			rt.Fatalf("C07 wrong-error: returned error wraps %v which did not fail (fired: %v)", inj.Key, fired)
		}
		want := locs[inj.Key]
		mode := w.Wrap
		if m.WrapOff {
			mode = "unspecified"
			Count("c07.location_oracle_skipped_method_level_override", 1)
		}
		switch mode {
		case "unspecified":
		case "wrapErrorsUsing":
			ws := verifsim.Wraps()
			var got []verifsim.WrapElem
			for i := len(ws) - 1; i >= 0; i-- { // outermost first
				got = append(got, ws[i]...)
			}
			if fmtPath(got) != fmtPath(want) {
				rt.Fatalf("C07 wrong-location: fault %v: Wrap calls concatenated outermost first give %s, location of the failing element is %s", inj.Key, fmtPath(got), fmtPath(want))
			}
			Count("c07.paths_checked_exact", 1)
		case "wrapErrors":
			msg := err.Error()
			var chain []verifsim.WrapElem
			for {
				mm := wrapPrefix.FindStringSubmatch(msg)
				if mm == nil {
					break
				}
				if mm[1] != "" {
					chain = append(chain, verifsim.WrapElem{Kind: "field", Value: mm[1]})
				} else {
					chain = append(chain, verifsim.WrapElem{Kind: "index", Value: mm[2]})
				}
				msg = msg[len(mm[0]):]
			}
			if msg != inj.Error() {
				rt.Fatalf("C07 wrong-message: wrapErrors chain ends in %q, want the failing function's error %q", msg, inj.Error())
			}
			j := 0
			for _, e := range want {
				if j < len(chain) && e == chain[j] {
					j++
				}
			}
			if j != len(chain) {
				rt.Fatalf("C07 wrong-location: fault %v: wrapErrors chain %s is not an in-order subsequence of the location %s", inj.Key, fmtPath(chain), fmtPath(want))
			}
			// The method that invoked the failing function is the innermost enclosing method;
			// its path segment ends at the last element of the location, so when that element
			// is a field or an index it is what this method "was setting" and must close the
			// chain (a trailing map key adds nothing).
			if w.WrapOffTypes[innermostStruct[inj.Key]] {
				// the method that invoked the failing function is a declared method with
				// `wrapErrors no`: it contributes nothing, the closing rule does not apply
				Count("c07.closing_rule_waived_wrap_off_method", 1)
			} else if n := len(want); n > 0 && want[n-1].Kind != "key" {
				if len(chain) == 0 || chain[len(chain)-1] != want[n-1] {
					rt.Fatalf("C07 wrong-location: fault %v: innermost wrapErrors element is %s, but the failing element was being set at %s (location %s)", inj.Key, fmtPath(chain), want[n-1].Kind+"("+want[n-1].Value+")", fmtPath(want))
				}
			}
			Count("c07.paths_checked_subsequence", 1)
		default:
			if _, direct := err.(*verifsim.InjectedError); !direct {
				rt.Fatalf("C07 error-not-returned-as-is: without wrapping the injected error must be returned itself, got %T %q", err, err.Error())
			}
		}
		Distinct("c07.nontrivial", hashOf(m.Name, plan, fmtPath(want), orderSeed+k))
	}
	// every single reached call (exhaustive up to 64)
	singles := reached
	if len(singles) > 64 {
		singles = singles[:64]
		Count("c07.single_fault_truncated", 1)
	}
	for i, k := range singles {
		check([]verifsim.FaultKey{k}, uint64(i))
	}
	Count("c07.single_faults", int64(len(singles)))
	// sampled fault sets of size 2..5
	if len(reached) >= 2 {
		nSets := rapid.IntRange(0, 3).Draw(rt, "fault-sets")
		for sIdx := 0; sIdx < nSets; sIdx++ {
			size := rapid.IntRange(2, min(5, len(reached))).Draw(rt, "set-size")
			idx := map[int]bool{}
			for len(idx) < size {
				idx[rapid.IntRange(0, len(reached)-1).Draw(rt, "set-member")] = true
			}
			var plan []verifsim.FaultKey
			var is []int
			for i := range idx {
				is = append(is, i)
			}
			sort.Ints(is)
			for _, i := range is {
				plan = append(plan, reached[i])
			}
			check(plan, uint64(1000+sIdx))
			Count("c07.multi_fault_sets", 1)
		}
	}
	Sample(map[string]any{"method": m.Name, "reached_calls": len(reached), "example_location": fmtPath(locs[reached[0]])})
}

// ---- C04 auxiliary: Go race detector (NOT simulation; thorough tier only) -----------------

type prngChooser struct{ state uint64 }

func (p *prngChooser) Int(lo, hi int, label string) int {
	if hi <= lo {
		return lo
	}
	p.state = p.state*6364136223846793005 + 1442695040888963407
	return lo + int((p.state>>33)%uint64(hi-lo+1))
}

// RunRace releases several goroutines at once on one shared source, without the
// simulator's scheduler (its channels would create happens-before edges and blind the
// detector). Built with -race; a report makes the process exit 66.
func RunRace(t *testing.T, w *World) {
	for _, m := range w.Methods {
		srcT := reflect.TypeOf(m.Fn).In(0)
		for iter := 0; iter < 60; iter++ {
			b := NewBuilder(&prngChooser{state: uint64(iter)*977 + 13}, 0)
			b.Share = true
			b.Enums = w.Enums
			src := b.Build(srcT)
			start := make(chan struct{})
			var wg sync.WaitGroup
			for g := 0; g < 4; g++ {
				wg.Add(1)
				go func() {
					defer wg.Done()
					<-start
					defer func() { _ = recover() }()
					res, _, _ := call(m.Fn, src)
					// each caller mutates what it owns: its own result
					if !m.SkipCopy && res.IsValid() {
						Scribble(res)
					}
				}()
			}
			close(start)
			wg.Wait()
			Count("c04.race_aux_rounds", 1)
		}
	}
}
