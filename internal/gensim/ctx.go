package gensim

import (
	"crypto/sha256"
	"encoding/hex"
	"encoding/json"
	"fmt"
	"math/rand/v2"
	"os"
	"path/filepath"
	"sort"
	"strings"
	"sync"
	"time"

	"verif/internal/node"
	"verif/internal/rt/verifsim"
)

// Violation is one oracle failure.
type Violation struct {
	Property string `json:"property"`
	Class    string `json:"class"`
	Msg      string `json:"msg"`
	OpIndex  int    `json:"op_index"`
	// Key identifies the specific failing site / input for the known-findings file.
	Key string `json:"key,omitempty"`
}

// Judge evaluates a property's oracle over an executed history.
type Judge func(c *Ctx, h *History, obs []*Obs) ([]Violation, error)

// Ctx is shared by all checks of one driver process.
type Ctx struct {
	Node    *node.Node
	Runner  *Runner
	Seed    uint64
	Tier    string
	Workers int
	VerifDir string

	mu      sync.Mutex
	refMemo map[string]*Obs
	refMu   map[string]*sync.Mutex

	Stats *Stats
}

func NewCtx(n *node.Node, seed uint64, tier string, verifDir string) *Ctx {
	return &Ctx{
		Node: n, Runner: NewRunner(n), Seed: seed, Tier: tier, Workers: 16, VerifDir: verifDir,
		refMemo: map[string]*Obs{}, refMu: map[string]*sync.Mutex{},
		Stats: NewStats(),
	}
}

func splitmix(x uint64) uint64 {
	x += 0x9e3779b97f4a7c15
	x = (x ^ (x >> 30)) * 0xbf58476d1ce4e5b9
	x = (x ^ (x >> 27)) * 0x94d049bb133111eb
	return x ^ (x >> 31)
}

// Rng derives an independent stream from (seed, purpose, index): assignment of indices to
// workers never changes what an index does.
func (c *Ctx) Rng(purpose string, index int) *rand.Rand {
	h := sha256.Sum256([]byte(purpose))
	var p uint64
	for i := 0; i < 8; i++ {
		p = p<<8 | uint64(h[i])
	}
	a := splitmix(c.Seed ^ p)
	b := splitmix(a ^ uint64(index)*0x2545F4914F6CDD1D)
	return rand.New(rand.NewPCG(a, b))
}

// RefKey identifies a reference computation.
type RefOpts struct {
	Globals          []string
	BuildTags        *string
	OutputConstraint *string
	Patterns         []string
}

func optStr(p *string) string {
	if p == nil {
		return "<nil>"
	}
	return "=" + *p
}

// Ref is the reference model for C09/C16: the node's own behaviour in identity map
// order, without faults, in chdir form, on a pristine copy of the inputs at location 0.
func (c *Ctx) Ref(module string, inputs map[string]string, o RefOpts) (*Obs, error) {
	w := &World{Name: "ref", Module: module, Files: map[string]string{}, Patterns: o.Patterns, Globals: o.Globals,
		BuildTags: o.BuildTags, OutputConstraint: o.OutputConstraint}
	for k, v := range inputs {
		w.Files[k] = v
	}
	key := w.Hash() + "|" + strings.Join(o.Globals, "\x00") + "|" + optStr(o.BuildTags) + "|" + optStr(o.OutputConstraint) + "|" + strings.Join(o.Patterns, "\x00")
	c.mu.Lock()
	m, ok := c.refMu[key]
	if !ok {
		m = &sync.Mutex{}
		c.refMu[key] = m
	}
	c.mu.Unlock()
	m.Lock()
	defer m.Unlock()
	c.mu.Lock()
	if r, ok := c.refMemo[key]; ok {
		c.mu.Unlock()
		return r, nil
	}
	c.mu.Unlock()
	globals := o.Globals
	if globals == nil {
		globals = []string{}
	}
	h := &History{World: w, Ops: []Op{{Kind: "gen", Gen: &GenSpec{Globals: globals, Plan: verifsim.Plan{Order: verifsim.OrderPlan{Mode: "identity"}}}}}}
	obs, err := c.Runner.Exec(h)
	if err != nil {
		return nil, err
	}
	c.Stats.Add("ref_runs", 1)
	c.mu.Lock()
	c.refMemo[key] = obs[0]
	c.mu.Unlock()
	return obs[0], nil
}

// ---- statistics / evidence ----------------------------------------------------------

type Stats struct {
	mu       sync.Mutex
	Counters map[string]int64
	Sets     map[string]map[string]struct{}
	Samples  []any
	Start    time.Time
}

func NewStats() *Stats {
	return &Stats{Counters: map[string]int64{}, Sets: map[string]map[string]struct{}{}, Start: time.Now()}
}

func (s *Stats) Add(k string, n int64) {
	s.mu.Lock()
	s.Counters[k] += n
	s.mu.Unlock()
}

func (s *Stats) Get(k string) int64 {
	s.mu.Lock()
	defer s.mu.Unlock()
	return s.Counters[k]
}

// Distinct records a member of a named set; the set sizes are measured counts.
func (s *Stats) Distinct(set, member string) {
	s.mu.Lock()
	m, ok := s.Sets[set]
	if !ok {
		m = map[string]struct{}{}
		s.Sets[set] = m
	}
	m[member] = struct{}{}
	s.mu.Unlock()
}

func (s *Stats) SetSize(set string) int {
	s.mu.Lock()
	defer s.mu.Unlock()
	return len(s.Sets[set])
}

func (s *Stats) Sample(v any, max int) {
	s.mu.Lock()
	if len(s.Samples) < max {
		s.Samples = append(s.Samples, v)
	}
	s.mu.Unlock()
}

func (s *Stats) CountersWithPrefix(p string) map[string]int64 {
	s.mu.Lock()
	defer s.mu.Unlock()
	out := map[string]int64{}
	for k, v := range s.Counters {
		if strings.HasPrefix(k, p) {
			out[strings.TrimPrefix(k, p)] = v
		}
	}
	return out
}

// ---- replay files ---------------------------------------------------------------------

type Replay struct {
	Property  string    `json:"property"`
	Class     string    `json:"class"`
	Msg       string    `json:"msg"`
	Key       string    `json:"key,omitempty"`
	Engine    string    `json:"engine"`
	Seed      uint64    `json:"seed"`
	RepoHash  string    `json:"repo_hash,omitempty"`
	SiteNames []string  `json:"site_names,omitempty"`
	History   *History  `json:"history,omitempty"`
	Minimised bool      `json:"minimised"`
	// Native: the violation did not recur on every execution of this very history when it
	// was found (source outside the seams); replay repeats the history up to 16 times.
	Native bool `json:"native_nondeterminism,omitempty"`
	ShrinkLog []string  `json:"shrink_log,omitempty"`
	Extra     any       `json:"extra,omitempty"`
}

func (c *Ctx) WriteReplay(r *Replay) (string, error) {
	dir := filepath.Join(c.VerifDir, "replays")
	_ = os.MkdirAll(dir, 0o755)
	b, err := json.MarshalIndent(r, "", " ")
	if err != nil {
		return "", err
	}
	s := sha256.Sum256(b)
	p := filepath.Join(dir, fmt.Sprintf("%s-%d-%s.json", r.Property, r.Seed, hex.EncodeToString(s[:4])))
	return p, os.WriteFile(p, b, 0o644)
}

func ReadReplay(p string) (*Replay, error) {
	b, err := os.ReadFile(p)
	if err != nil {
		return nil, err
	}
	var r Replay
	if err := json.Unmarshal(b, &r); err != nil {
		return nil, err
	}
	return &r, nil
}

// SiteNames lists the node's sites in a stable textual form for replay files.
func (c *Ctx) SiteNames() []string {
	var out []string
	for _, s := range c.Node.Sites {
		out = append(out, fmt.Sprintf("%d=%s:%d %s %s", s.ID, s.File, s.Line, s.Kind, s.What))
	}
	sort.Strings(out)
	return out
}

// SiteKey returns a line-number-free identity of a site: file + ranged expression.
func (c *Ctx) SiteKey(id int) string {
	for _, s := range c.Node.Sites {
		if s.ID == id {
			return s.File + ":" + s.What
		}
	}
	return fmt.Sprintf("site#%d", id)
}
