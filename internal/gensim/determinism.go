package gensim

import (
	"crypto/sha256"
	"encoding/hex"
	"fmt"
	"sort"
	"strings"
)

// Digest executes a fixed, seed-derived batch of histories (all op kinds, faults, torn
// writes, environment variants) and returns one line per gen op holding everything the
// oracles look at. Two runs with the same seed must produce identical digests whatever the
// worker count, GOMAXPROCS or process.
func Digest(c *Ctx, n int) ([]string, error) {
	lines := make([][]string, n)
	mk := func(i int) ([]*History, error) {
		rng := c.Rng("determinism", i)
		h := DrawHistory(c, rng, HistoryOpts{MaxSteps: 4, Faults: true, Corrupt: true, Relocate: true, EnvVariants: true, RandomOrder: true,
			Layout: LayoutOpts{CustomTags: true, Guarded: true, UserPkgs: true, GuardedUser: true}, TornHeader: i%3 == 0})
		obs, err := c.Runner.Exec(h)
		if err != nil {
			return nil, err
		}
		var out []string
		for _, o := range obs {
			var ev []string
			for _, e := range o.Events {
				ev = append(ev, fmt.Sprintf("%s/%d/%d/%d/%v/%d/%d/%s/%s/%o/%d/%s/%s", e.T, e.Site, e.N, e.Visit, e.NonID, e.H, e.I, e.Op, e.Path, e.Mode, e.Len, e.Sha, e.Fault))
			}
			var files []string
			for p, content := range o.Outputs {
				s := sha256.Sum256([]byte(content))
				files = append(files, p+"="+hex.EncodeToString(s[:6]))
			}
			sort.Strings(files)
			s := sha256.Sum256([]byte(strings.Join(ev, "\n") + "\x00" + o.Stderr + "\x00" + o.Stdout + "\x00" + strings.Join(files, ",")))
			out = append(out, fmt.Sprintf("h%d op%d exit=%d crashed=%v created=%v modified=%v removed=%v events=%d digest=%s", i, o.OpIndex, o.Exit, o.Crashed, o.Diff.Created, o.Diff.Modified, o.Diff.Removed, len(o.Events), hex.EncodeToString(s[:8])))
		}
		for _, j := range []Judge{JudgeC09, JudgeC15, JudgeC16, JudgeC17} {
			vs, err := j(c, h, obs)
			if err != nil {
				return nil, err
			}
			for _, v := range vs {
				out = append(out, fmt.Sprintf("h%d verdict %s/%s", i, v.Property, v.Class))
			}
		}
		lines[i] = out
		return nil, nil
	}
	if _, err := c.RunCases(n, mk, func(*Ctx, *History, []*Obs) ([]Violation, error) { return nil, nil }, nil); err != nil {
		return nil, err
	}
	var all []string
	for _, l := range lines {
		all = append(all, l...)
	}
	return all, nil
}
