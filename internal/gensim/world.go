// Package gensim is engine A: the goverter CLI as a node on a simulated disk and
// environment, driven through histories of operations.
package gensim

import (
	"crypto/sha256"
	"encoding/hex"
	"fmt"
	"os"
	"path/filepath"
	"sort"
	"strings"

	"gopkg.in/yaml.v3"

	"verif/internal/rt/verifsim"
)

const DefaultModule = "github.com/jmattheis/goverter/execution"

// World is the input side of a simulated module tree.
type World struct {
	Name   string            `json:"name"`
	Module string            `json:"module"`
	Files  map[string]string `json:"files"` // relative path → content (go.mod is added on materialisation)
	// Symlinks: relative path of a symbolic link → key in Files of the regular file it
	// points to (materialised as a relative link). The link is an input like any other file.
	Symlinks map[string]string `json:"symlinks,omitempty"`
	// Patterns are the canonical package patterns (relative `./x` or import paths).
	Patterns []string `json:"patterns"`
	Globals  []string `json:"globals,omitempty"`
	// OutputConstraint, when non-nil, is passed as -output-constraint.
	OutputConstraint *string `json:"output_constraint,omitempty"`
	BuildTags        *string `json:"build_tags,omitempty"`
	// Tags used to classify worlds in evidence.
	Tags []string `json:"tags,omitempty"`
}

func (w *World) Clone() *World {
	c := *w
	c.Files = map[string]string{}
	for k, v := range w.Files {
		c.Files[k] = v
	}
	if w.Symlinks != nil {
		c.Symlinks = map[string]string{}
		for k, v := range w.Symlinks {
			c.Symlinks[k] = v
		}
	}
	c.Patterns = append([]string(nil), w.Patterns...)
	c.Globals = append([]string(nil), w.Globals...)
	c.Tags = append([]string(nil), w.Tags...)
	return &c
}

func (w *World) Hash() string {
	h := sha256.New()
	keys := make([]string, 0, len(w.Files))
	for k := range w.Files {
		keys = append(keys, k)
	}
	sort.Strings(keys)
	fmt.Fprintf(h, "mod=%s\n", w.Module)
	for _, k := range keys {
		fmt.Fprintf(h, "%s\x00%d\x00%s\x00", k, len(w.Files[k]), w.Files[k])
	}
	return hex.EncodeToString(h.Sum(nil)[:8])
}

// Op is one step of a history. File ops are primitive so that a replay file is
// self-contained; Label says which high-level operation produced them.
type Op struct {
	Kind  string `json:"kind"` // gen | write | remove | truncate | relocate
	Label string `json:"label,omitempty"`

	Path    string `json:"path,omitempty"`
	Content string `json:"content,omitempty"`
	// Input says that the file op edits the input set (user sources) rather than meddling
	// with what goverter wrote.
	Input bool `json:"input,omitempty"`
	N     int  `json:"n,omitempty"`

	Gen *GenSpec `json:"gen,omitempty"`
}

// GenSpec is one invocation of the node.
type GenSpec struct {
	Patterns         []string `json:"patterns,omitempty"`
	Cwd              string   `json:"cwd,omitempty"` // chdir (default) | abs | rel
	Globals          []string `json:"globals,omitempty"`
	BuildTags        *string  `json:"build_tags,omitempty"`
	OutputConstraint *string  `json:"output_constraint,omitempty"`
	Gomaxprocs       int      `json:"gomaxprocs,omitempty"`
	Umask            int      `json:"umask,omitempty"` // 0 → 022
	// FileAge is the simulated age of the tree relative to the run. The go command reads a
	// package directory through its module index only when no file in it was modified within
	// the last 2 seconds (real time), and the two paths disagree on files that are excluded
	// by a build constraint but have no parsable package clause. "" / "settled": every file
	// gets an old, unique mtime before the run (index path, the normal case for a user);
	// "fresh": the index is disabled for the run (GODEBUG=goindex=0), which is what a run
	// within 2 s of the last modification sees.
	FileAge string `json:"file_age,omitempty"`
	// Env overrides process environment variables of the node (ambient state that must not
	// reach the output: USER, HOME, LANG, TZ, HOSTNAME …).
	Env map[string]string `json:"env,omitempty"`
	// Canon is the canonical pattern list of the current input version (for the reference
	// model); default: the world's patterns.
	Canon []string `json:"canon,omitempty"`
	// Spec is the layout spec in effect for this gen (for the independent models).
	Spec *LSpec `json:"spec,omitempty"`
	// Expect is what the history's generator knows about the outcome from the spec alone:
	// "fail" (some selected converter is defective), "ok", "help", "usage", "version" or "".
	Expect string `json:"expect,omitempty"`
	// Argv, when non-nil, is the raw argument vector after the program name.
	Argv []string      `json:"argv,omitempty"`
	Plan verifsim.Plan `json:"plan"`
	// Orig runs the unmodified binary (no seams; plan ignored).
	Orig bool `json:"orig,omitempty"`
	// CustomCLI runs the node built from a custom main that calls cli.Run with an additional
	// enum transformer (the documented way to extend goverter) instead of cmd/goverter.
	CustomCLI bool `json:"custom_cli,omitempty"`
	// CheckFree marks a gen whose only purpose is to set up state; oracles skip it.
	Setup bool `json:"setup,omitempty"`
}

// History is a world plus the operations applied to it.
type History struct {
	World *World `json:"world"`
	Ops   []Op   `json:"ops"`
	// Loc is the index of the absolute location the module starts at.
	Loc int `json:"loc,omitempty"`
}

// ---- scenario corpus -------------------------------------------------------------

type scenarioFile struct {
	VersionDependent bool              `yaml:"version_dependent,omitempty"`
	Input            map[string]string `yaml:"input"`
	Global           []string          `yaml:"global,omitempty"`
	BuildConstraint  string            `yaml:"build_constraint,omitempty"`
	Patterns         []string          `yaml:"patterns,omitempty"`
	Success          []map[string]string
	Error            string `yaml:"error,omitempty"`
}

// LoadScenarios reads /repo/scenario/*.yml from the working tree as worlds.
func LoadScenarios(repo string) ([]*World, error) {
	dir := filepath.Join(repo, "scenario")
	ents, err := os.ReadDir(dir)
	if err != nil {
		return nil, err
	}
	var out []*World
	for _, e := range ents {
		if e.IsDir() || !strings.HasSuffix(e.Name(), ".yml") {
			continue
		}
		b, err := os.ReadFile(filepath.Join(dir, e.Name()))
		if err != nil {
			return nil, err
		}
		var s scenarioFile
		if err := yaml.Unmarshal(b, &s); err != nil {
			// a scenario the suite itself could not read is not our business
			continue
		}
		if s.VersionDependent {
			continue
		}
		w := &World{
			Name:    "scenario/" + strings.TrimSuffix(e.Name(), ".yml"),
			Module:  DefaultModule,
			Files:   map[string]string{},
			Globals: s.Global,
		}
		for k, v := range s.Input {
			w.Files[filepath.ToSlash(k)] = v
		}
		if len(s.Patterns) == 0 {
			w.Patterns = []string{DefaultModule}
		} else {
			w.Patterns = s.Patterns
		}
		if s.BuildConstraint != "" {
			c := s.BuildConstraint
			w.OutputConstraint = &c
		}
		if s.Error != "" {
			w.Tags = append(w.Tags, "corpus-fail")
		} else {
			w.Tags = append(w.Tags, "corpus-ok")
		}
		out = append(out, w)
	}
	sort.Slice(out, func(i, j int) bool { return out[i].Name < out[j].Name })
	return out, nil
}

func strp(s string) *string { return &s }
