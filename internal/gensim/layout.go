package gensim

import (
	"fmt"
	"math/rand/v2"
	"path"
	"sort"
	"strings"
)

// Layout worlds: several converters over several packages with drawn output:file /
// output:package forms, type versions (so that an earlier output goes stale against
// changed types), injectable defects per converter, and build-tag guarded helper files.
// The spec is kept so that independent models (C15 path/package model, C17 expectations)
// can be evaluated against it.

const RootPlaceholder = "@@ROOT@@"

type LConv struct {
	Dir      string `json:"dir"`  // package directory, "" = module root
	File     string `json:"file"` // declaring file name
	Kind     string `json:"kind"` // interface | variables
	Name     string `json:"name"` // interface name / variable prefix
	OutFile  string `json:"out_file,omitempty"`
	OutPkg   string `json:"out_pkg,omitempty"`
	Format   string `json:"format,omitempty"` // "" | function | struct
	ImplName string `json:"impl_name,omitempty"`
	Version  int    `json:"version"`
	Defect   string `json:"defect,omitempty"` // directive | signature | conversion | marker
	// Guarded: the extend function used by this converter lives in a file guarded by
	// //go:build <tag> (only visible while goverter runs).
	Guarded bool `json:"guarded,omitempty"`
	// GuardedDecl: the converter interface itself is declared in a file guarded by
	// //go:build <tag>; only the types live in the unguarded file.
	GuardedDecl bool `json:"guarded_decl,omitempty"`
	// ExtIn: the converter uses an extend function that lives in ANOTHER declaring package
	// (directory); that package must then be loaded with the run's build tags as well.
	ExtIn string `json:"ext_in,omitempty"`
	// Short: only the first method is declared (the output gets shorter).
	Short bool `json:"short,omitempty"`
	// UnsafeZero: the converter also declares an update method with
	// update:ignoreZeroValueField:basic over structs that hold an unsafe.Pointer field (a
	// basic type whose zero value is nil).
	UnsafeZero bool `json:"unsafe_zero,omitempty"`
	// Empty: a goverter:variables block without any function (var ()): its output file is
	// still written (package clause only), replacing whatever an earlier run left there.
	Empty bool `json:"empty,omitempty"`
	// Exotic adds one more method over legal but rarely used shapes:
	// uintptr-list ([]uintptr fields) | unsafeptr-list ([]unsafe.Pointer fields) |
	// self-ref-types (type Tree []Tree, type Dict map[string]Dict) |
	// generic-unused-param (a converter interface with a type parameter no method mentions) |
	// update-func-nosource (update method with `goverter:map F | Func`, Func taking no source).
	Exotic string `json:"exotic,omitempty"`
	// PkgFirst: the output:package line is written above the output:file line.
	PkgFirst bool `json:"pkg_first,omitempty"`
	// Raw is a goverter:output:raw line.
	Raw string `json:"raw,omitempty"`
}

func low(s string) string { return strings.ToLower(s) }

type LSpec struct {
	Convs []LConv `json:"convs"`
	// UserPkgs: directory → package name of a pre-existing user package (a doc.go).
	UserPkgs map[string]string `json:"user_pkgs,omitempty"`
	// TestOnlyPkgs: directories of UserPkgs whose only file is a _test.go file (the go command
	// still names the package after it).
	TestOnlyPkgs map[string]bool `json:"test_only_pkgs,omitempty"`
	// UserPkgUses: directory → identifier the pre-existing user package refers to before it
	// is generated (bootstrap: the package has type errors until goverter has run).
	UserPkgUses map[string]string `json:"user_pkg_uses,omitempty"`
	// PkgNames: directory → package name used by the declaring packages.
	PkgNames map[string]string `json:"pkg_names"`
	// WrapPkg: `-g "wrapErrorsUsing <module>/errwrap"` names a helper package that is not
	// selected by the patterns and that only compiles under the run's build tag (it holds a
	// user file guarded by the output constraint that refers to not-yet-generated code).
	WrapPkg bool `json:"wrap_pkg,omitempty"`
	// FileConstraint: declaring file (dir/file) → a //go:build expression that is satisfied on
	// this platform; the declaring file is then a constrained user file.
	FileConstraint map[string]string `json:"file_constraint,omitempty"`
	// GlobalOutFile: `-g "output:file X"` on the command line (applies to every converter
	// that has no output:file of its own; relative to each declaring file). Only drawn for
	// worlds without goverter:variables blocks.
	GlobalOutFile string `json:"global_out_file,omitempty"`
	// CwdDir: the directory (relative to the module root) goverter is invoked in; "" = module
	// root. `@cwd/` outputs resolve against it (go:generate runs goverter in the package dir).
	CwdDir string `json:"cwd_dir,omitempty"`
	// PlainPkgs: directories of user packages without any converter that are nevertheless
	// selected by the patterns.
	PlainPkgs []string `json:"plain_pkgs,omitempty"`
	Tag      string            `json:"tag"` // build tag, constraint is !Tag; "" = CLI default (goverter)
	// TagList, when set, is the full -build-tags value (several tags, the negated one at any
	// position); the constraint stays !tag().
	TagList string `json:"tag_list,omitempty"`
	// GuardedUser adds a user file guarded by the output constraint that references the
	// generated identifiers of the first healthy struct-format converter.
	GuardedUser bool `json:"guarded_user,omitempty"`
	// Common: every converter additionally converts []commontypes.Item → []commontypes.ItemOut
	// (types of a shared package), so that all converters need a helper of the same name.
	Common bool `json:"common,omitempty"`
	// EqualNames: converters of different packages carry the same declared name and are merged
	// into one file; no well-formed merge exists without renaming, so a refusal (exit 1) is as
	// acceptable as a well-formed file — a successful run with duplicate declarations is not.
	EqualNames bool `json:"equal_names,omitempty"`
	// Cgo: declaring file (dir/file) → true: the file imports "C" (the go command hands out a
	// preprocessed copy of it).
	Cgo map[string]bool `json:"cgo,omitempty"`
	// LineDirectives: declaring file (dir/file) → file name of a `//line` directive placed above
	// its declarations (the file was produced from a template elsewhere); positions reported
	// through the directive must not move the output.
	LineDirectives map[string]string `json:"line_directives,omitempty"`
	// ForeignHeader: declaring file (dir/file) → true: the file starts with another
	// generator's `// Code generated ... DO NOT EDIT.` line (converters declared in code that
	// protoc, stringer, ... emitted are selected like any other).
	ForeignHeader map[string]bool `json:"foreign_header,omitempty"`
	// DirLinks: directory symbolic links inside the module (link → existing target directory);
	// an output path that goes through a link is the file under the target.
	DirLinks map[string]string `json:"dir_links,omitempty"`
	// LinkedFiles: declaring file (dir/file) → path of the regular file it is a symbolic link
	// to (a shared source kept outside every package directory). Outputs stay relative to the
	// declaring file, i.e. to the link.
	LinkedFiles map[string]string `json:"linked_files,omitempty"`

	guardedDecls [][2]string
}

func (s *LSpec) tag() string {
	if s.Tag == "" {
		return "goverter"
	}
	return s.Tag
}

func importPath(dir string) string {
	if dir == "" || dir == "." {
		return DefaultModule
	}
	return DefaultModule + "/" + dir
}

func normPkgName(dir string) string {
	base := path.Base(importPath(dir))
	base = strings.ToLower(base)
	var b strings.Builder
	for _, r := range base {
		if (r >= 'a' && r <= 'z') || (r >= '0' && r <= '9') {
			b.WriteRune(r)
		}
	}
	out := strings.TrimLeft(b.String(), "0123456789")
	if out == "" {
		return "pkg"
	}
	return out
}


// Prediction of the C15 reference model for one converter.
type Predicted struct {
	Path    string // relative to module root
	PkgName string // package clause
	PkgID   string // identity used for the same-file agreement rule
	PkgPath string // resolved package path
}

// Predict is the independent model of docs/reference/output.md.
func (s *LSpec) Predict(c *LConv) Predicted {
	var p Predicted
	of := c.OutFile
	if of == "" && s.GlobalOutFile != "" && c.Kind == "interface" {
		of = s.GlobalOutFile
	}
	switch {
	case of == "" && c.Kind == "interface":
		p.Path = path.Join(c.Dir, "generated", "generated.go")
	case of == "":
		ext := path.Ext(c.File)
		p.Path = path.Join(c.Dir, strings.TrimSuffix(c.File, ext)+".gen"+ext)
	case strings.HasPrefix(of, "@cwd/"):
		p.Path = path.Join(s.CwdDir, strings.TrimPrefix(of, "@cwd/"))
	case strings.HasPrefix(of, RootPlaceholder+"/"):
		p.Path = path.Clean(strings.TrimPrefix(of, RootPlaceholder+"/"))
	default:
		p.Path = path.Join(c.Dir, of)
	}
	for link, target := range s.DirLinks {
		if strings.HasPrefix(p.Path, link+"/") {
			p.Path = target + strings.TrimPrefix(p.Path, link)
		}
	}
	dir := path.Dir(p.Path)
	if dir == "." {
		dir = ""
	}
	pkgPath, pkgName := "", ""
	op := c.OutPkg
	if c.Kind == "variables" && op == "" && dir == c.Dir {
		// a variables block written next to its declaration belongs to the declaring package
		pkgPath, pkgName = importPath(c.Dir), s.PkgNames[c.Dir]
	}
	if op != "" {
		parts := strings.SplitN(op, ":", 2)
		pkgPath = parts[0]
		if len(parts) == 2 {
			pkgName = parts[1]
		}
	}
	if pkgPath == "" {
		pkgPath = importPath(dir)
	}
	p.PkgID = pkgPath
	if pkgName != "" {
		p.PkgID += ":" + pkgName
	}
	if pkgName == "" {
		// existing package at the *file's* location, under the run's build tags
		if n, ok := s.existingPkg(dir); ok {
			pkgName = n
		}
	}
	if pkgName == "" {
		pkgName = normPkgName(strings.TrimPrefix(strings.TrimPrefix(pkgPath, DefaultModule), "/"))
	}
	p.PkgName = pkgName
	p.PkgPath = pkgPath
	return p
}

func (s *LSpec) existingPkg(dir string) (string, bool) {
	if n, ok := s.UserPkgs[dir]; ok {
		return n, true
	}
	if n, ok := s.PkgNames[dir]; ok {
		return n, true
	}
	return "", false
}

func (c *LConv) implName() string {
	if c.ImplName != "" {
		return c.ImplName
	}
	return c.Name + "Impl"
}

func (c *LConv) method(i int) string { return fmt.Sprintf("Conv%s%d", c.Name, i) }

func fieldNames(version int) (string, string, string) {
	return fmt.Sprintf("Alpha%d", version), fmt.Sprintf("Beta%d", version), fmt.Sprintf("Items%d", version)
}

// Render writes the input files of the spec.
func (s *LSpec) Render() map[string]string {
	files := s.render()
	for link, target := range s.LinkedFiles {
		if c, ok := files[link]; ok {
			delete(files, link)
			files[target] = c
		}
	}
	return files
}

func (s *LSpec) render() map[string]string {
	s.guardedDecls = nil
	byFile := map[string][]*LConv{}
	var fileOrder []string
	for i := range s.Convs {
		c := &s.Convs[i]
		key := path.Join(c.Dir, c.File)
		if _, ok := byFile[key]; !ok {
			fileOrder = append(fileOrder, key)
		}
		byFile[key] = append(byFile[key], c)
	}
	sort.Strings(fileOrder)
	files := map[string]string{}
	for _, key := range fileOrder {
		convs := byFile[key]
		dir := convs[0].Dir
		var b strings.Builder
		if s.ForeignHeader[key] {
			b.WriteString("// Code generated by protoc-gen-go. DO NOT EDIT.\n// source: api.proto\n\n")
		}
		if ld, ok := s.LineDirectives[key]; ok && strings.HasPrefix(ld, "^") {
			// a directive on the very first line, before the package clause (goyacc style)
			fmt.Fprintf(&b, "//line %s:1\n", strings.TrimPrefix(ld, "^"))
		}
		if fc, ok := s.FileConstraint[key]; ok {
			fmt.Fprintf(&b, "//go:build %s\n\n", fc)
		}
		fmt.Fprintf(&b, "package %s\n\n", s.PkgNames[dir])
		if s.Cgo[key] {
			b.WriteString("// #include <stdlib.h>\nimport \"C\"\n\n")
		}
		if s.Common {
			fmt.Fprintf(&b, "import %q\n\n", importPath("commontypes"))
		}
		for _, c := range convs {
			if (c.UnsafeZero || c.Exotic == "unsafeptr-list") && !c.GuardedDecl {
				b.WriteString("import \"unsafe\"\n\n")
				break
			}
		}
		if ld, ok := s.LineDirectives[key]; ok && !strings.HasPrefix(ld, "^") {
			fmt.Fprintf(&b, "//line %s:10\n", ld)
		}
		for _, c := range convs {
			if c.Defect == "syntax" {
				// an unbalanced brace ABOVE the converter declaration: the parser swallows it
				fmt.Fprintf(&b, "func brokenSyntax%s() {\n\tif true {\n}\n\n", c.Name)
			}
		}
		for _, c := range convs {
			s.renderConv(&b, c)
		}
		files[key] = b.String()
		for _, c := range convs {
			if c.ExtIn != "" {
				lf := path.Join(c.ExtIn, "ext_"+strings.ToLower(c.Name)+"_lib.go")
				files[lf] = fmt.Sprintf("package %s\n\nimport decl %q\n\nfunc Ext%s(v decl.Raw%s) decl.Cooked%s { return decl.Cooked%s(v) }\n",
					s.PkgNames[c.ExtIn], importPath(c.Dir), c.Name, c.Name, c.Name, c.Name)
			}
			if c.Guarded {
				gf := path.Join(c.Dir, "ext_"+strings.ToLower(c.Name)+"_guarded.go")
				files[gf] = fmt.Sprintf("//go:build %s\n\npackage %s\n\nfunc Ext%s(v Raw%s) Cooked%s { return Cooked%s(v) }\n",
					s.tag(), s.PkgNames[dir], c.Name, c.Name, c.Name, c.Name)
			}
		}
	}
	for _, gd := range s.guardedDecls {
		files[gd[0]] = gd[1]
	}
	if s.Common {
		files["commontypes/types.go"] = "package commontypes\n\ntype Item struct{ V int }\ntype ItemOut struct{ V int }\n"
	}
	if s.WrapPkg {
		files["errwrap/wrap.go"] = "package errwrap\n\ntype Elem struct{ K, V string }\n\nfunc Wrap(err error, elems ...Elem) error { return err }\nfunc Key(k any) Elem          { return Elem{K: \"key\"} }\nfunc Index(i int) Elem        { return Elem{K: \"index\"} }\nfunc Field(s string) Elem     { return Elem{K: \"field\"} }\n"
		files["errwrap/uses_generated.go"] = fmt.Sprintf("//go:build !%s\n\npackage errwrap\n\n// refers to code that a later goverter run is going to generate into this package\nvar _ = notYetGeneratedHelper\n", s.tag())
	}
	for _, d := range s.PlainPkgs {
		files[path.Join(d, "plain.go")] = fmt.Sprintf("// Package %s has no converters.\npackage %s\n\n// goverter is mentioned here only in prose.\ntype Plain struct{ N int }\n", normPkgName(d), normPkgName(d))
	}
	dirs := make([]string, 0, len(s.UserPkgs))
	for d := range s.UserPkgs {
		dirs = append(dirs, d)
	}
	sort.Strings(dirs)
	for _, d := range dirs {
		if s.TestOnlyPkgs[d] {
			files[path.Join(d, "only_test.go")] = fmt.Sprintf("package %s\n\nimport \"testing\"\n\nfunc TestNothing(t *testing.T) {}\n", s.UserPkgs[d])
			continue
		}
		files[path.Join(d, "doc.go")] = fmt.Sprintf("// Package %s is a pre-existing user package.\npackage %s\n\nconst Marker%s = 1\n", s.UserPkgs[d], s.UserPkgs[d], strings.Title(normPkgName(d)))
		if id, ok := s.UserPkgUses[d]; ok {
			files[path.Join(d, "doc.go")] += "\n// refers to generated code that does not exist before the first run\nvar _ = &" + id + "{}\n"
		}
	}
	if s.GuardedUser {
		for i := range s.Convs {
			c := &s.Convs[i]
			if c.Kind == "interface" && c.Format != "function" && c.Defect == "" {
				p := s.Predict(c)
				pdir := path.Dir(p.Path)
				if pdir == "." {
					pdir = ""
				}
				files[path.Join(pdir, "use_generated.go")] = fmt.Sprintf("//go:build !%s\n\npackage %s\n\nvar _ = &%s{}\n", s.tag(), p.PkgName, c.implName())
				break
			}
		}
	}
	return files
}

func (s *LSpec) renderConv(b *strings.Builder, c *LConv) {
	fa, fb, fc := fieldNames(c.Version)
	n := c.Name
	marker := "goverter:converter"
	if c.Kind == "variables" {
		marker = "goverter:variables"
	}
	var lines []string
	lines = append(lines, "// "+marker)
	if c.OutPkg != "" && c.PkgFirst {
		lines = append(lines, "// goverter:output:package "+c.OutPkg)
	}
	if c.OutFile != "" {
		lines = append(lines, "// goverter:output:file "+c.OutFile)
	}
	if c.OutPkg != "" && !c.PkgFirst {
		lines = append(lines, "// goverter:output:package "+c.OutPkg)
	}
	if c.Format != "" && c.Kind == "interface" {
		lines = append(lines, "// goverter:output:format "+c.Format)
	}
	if c.ImplName != "" && c.Kind == "interface" && c.Format != "function" {
		lines = append(lines, "// goverter:name "+c.ImplName)
	}
	if c.Guarded {
		lines = append(lines, "// goverter:extend Ext"+n)
	}
	if c.ExtIn != "" {
		lines = append(lines, "// goverter:extend "+importPath(c.ExtIn)+":Ext"+n)
	}
	if c.Raw != "" {
		lines = append(lines, "// goverter:output:raw "+c.Raw)
	}
	if c.Defect == "render" {
		lines = append(lines, "// goverter:output:raw func brokenRaw"+n+"( {")
	}
	if c.Defect == "directive" {
		lines = append(lines, "// goverter:thisSettingDoesNotExist yes")
	}
	if c.Defect == "extendlist" {
		// several names in one extend setting, a defective one that is not the last
		lines = append(lines, "// goverter:extend NoSuchFunction"+n+" strconv:Itoa")
	}
	in, out := "In"+n, "Out"+n
	outT := out
	generic := c.Defect == "generic" && c.Kind == "interface" && !c.GuardedDecl
	if c.Defect == "conversion" || (c.Defect == "generic" && !generic) {
		outT = "Bad" + n
	}
	sig0 := fmt.Sprintf("(source %s) %s", in, outT)
	sig1 := fmt.Sprintf("(source []%s) []%s", in, outT)
	if c.Defect == "signature" {
		sig0 = fmt.Sprintf("(source %s, other %s) %s", in, in, outT)
	}
	methodDoc := ""
	if c.Defect == "methoddirective" {
		methodDoc = "    // goverter:map\n"
	}
	if c.Short {
		sig1 = ""
	}
	if c.UnsafeZero && !c.GuardedDecl {
		lines = append(lines, "// goverter:update:ignoreZeroValueField:basic")
	}
	m1 := ""
	if sig1 != "" {
		if c.Kind == "interface" {
			m1 = fmt.Sprintf("    %s%s\n", c.method(1), sig1)
		} else {
			m1 = fmt.Sprintf("    %s func%s\n", c.method(1), sig1)
		}
	}
	if c.UnsafeZero && !c.GuardedDecl {
		if c.Kind == "interface" {
			m1 += fmt.Sprintf("    // goverter:update target\n    %s(source Uz%s, target *UzOut%s)\n", c.method(2), n, n)
		} else {
			m1 += fmt.Sprintf("    // goverter:update target\n    %s func(source Uz%s, target *UzOut%s)\n", c.method(2), n, n)
		}
		defer fmt.Fprintf(b, "type Uz%s struct {\n    Label string\n    Handle unsafe.Pointer\n}\ntype UzOut%s struct {\n    Label string\n    Handle unsafe.Pointer\n}\n\n", n, n)
	}
	if c.Exotic != "" && !c.GuardedDecl {
		fn := ""
		if c.Kind != "interface" {
			fn = " func"
		}
		switch c.Exotic {
		case "uintptr-list", "unsafeptr-list":
			et := "uintptr"
			if c.Exotic == "unsafeptr-list" {
				et = "unsafe.Pointer"
			}
			m1 += fmt.Sprintf("    %s%s(source Ex%s) ExOut%s\n", c.method(3), fn, n, n)
			defer fmt.Fprintf(b, "type Ex%s struct {\n    Label string\n    Handles []%s\n}\ntype ExOut%s struct {\n    Label string\n    Handles []%s\n}\n\n", n, et, n, et)
		case "self-ref-types":
			m1 += fmt.Sprintf("    %s%s(source Ex%s) ExOut%s\n", c.method(3), fn, n, n)
			defer fmt.Fprintf(b, "type Tree%s []Tree%s\ntype Dict%s map[string]Dict%s\ntype Ex%s struct {\n    Label string\n    Kids Tree%s\n    Maps Dict%s\n}\ntype ExOut%s struct {\n    Label string\n    Kids Tree%s\n    Maps Dict%s\n}\n\n", n, n, n, n, n, n, n, n, n, n)
		case "update-func-nosource":
			m1 += fmt.Sprintf("    // goverter:update target\n    // goverter:map Stamp | Stamp%s\n    %s%s(source Ex%s, target *ExOut%s)\n", n, c.method(3), fn, n, n)
			defer fmt.Fprintf(b, "func Stamp%s() int { return 7 }\n\ntype Ex%s struct{ Label string }\ntype ExOut%s struct {\n    Label string\n    Stamp int\n}\n\n", n, n, n)
		}
	}
	if c.Kind == "interface" && c.GuardedDecl {
		s.guardedDecls = append(s.guardedDecls, [2]string{
			path.Join(c.Dir, "decl_"+strings.ToLower(c.Name)+"_guarded.go"),
			fmt.Sprintf("//go:build %s\n\npackage %s\n\n%s\ntype %s interface {\n%s    %s%s\n%s}\n", s.tag(), s.PkgNames[c.Dir], strings.Join(lines, "\n"), n, methodDoc, c.method(0), sig0, m1),
		})
	} else if generic {
		// a generic converter interface: cannot be generated, must be refused with a diagnostic
		fmt.Fprintf(b, "%s\ntype %s[T any] interface {\n    %s(source Gen%s[T]) GenOut%s[T]\n}\n\ntype Gen%s[T any] struct{ A T }\ntype GenOut%s[T any] struct{ A T }\n\n", strings.Join(lines, "\n"), n, c.method(0), n, n, n, n)
	} else if c.Kind == "interface" && c.Exotic == "generic-unused-param" {
		// type parameters that no method mentions: generated like any other interface
		fmt.Fprintf(b, "%s\ntype %s[T any] interface {\n%s    %s%s\n%s}\n\n", strings.Join(lines, "\n"), n, methodDoc, c.method(0), sig0, m1)
	} else if c.Kind == "interface" {
		fmt.Fprintf(b, "%s\ntype %s interface {\n%s    %s%s\n%s}\n\n", strings.Join(lines, "\n"), n, methodDoc, c.method(0), sig0, m1)
	} else if c.Empty {
		fmt.Fprintf(b, "%s\nvar ()\n\n", strings.Join(lines, "\n"))
	} else {
		names := c.method(0)
		if c.Defect == "multiname" {
			// one value spec declaring two conversion functions: refused ("must have one name")
			names += ", " + c.method(0) + "Again"
		}
		fmt.Fprintf(b, "%s\nvar (\n%s    %s func%s\n%s)\n\n", strings.Join(lines, "\n"), methodDoc, names, sig0, m1)
	}
	raw, cooked := "int", "int"
	if c.Guarded || c.ExtIn != "" {
		raw, cooked = "Raw"+n, "Cooked"+n
		fmt.Fprintf(b, "type Raw%s int\ntype Cooked%s int\n", n, n)
	}
	cin, cout := "", ""
	if s.Common {
		cin, cout = "    Common []commontypes.Item\n", "    Common []commontypes.ItemOut\n"
	}
	if c.Defect == "errorfield" {
		// an interface-typed field goverter cannot convert by itself: must be refused
		cin, cout = cin+"    Err error\n", cout+"    Err error\n"
	}
	fmt.Fprintf(b, "type %s struct {\n    %s %s\n    %s string\n    %s []Sub%s\n%s}\n", in, fa, raw, fb, fc, n, cin)
	fmt.Fprintf(b, "type %s struct {\n    %s %s\n    %s string\n    %s []SubOut%s\n%s}\n", out, fa, cooked, fb, fc, n, cout)
	fmt.Fprintf(b, "type Sub%s struct{ V%d int }\ntype SubOut%s struct{ V%d int }\n", n, c.Version, n, c.Version)
	if c.Defect == "conversion" || (c.Defect == "generic" && !generic) {
		fmt.Fprintf(b, "type Bad%s struct{ Unmappable%s chan int }\n", n, n)
	}
	if c.Defect == "marker" {
		fmt.Fprintf(b, "// goverter:converter\ntype Wrong%s struct{ X int }\n", n)
	}
	if c.Defect == "load" {
		fmt.Fprintf(b, "var broken%s int = \"not an int\"\n", n)
	}
	b.WriteString("\n")
}

// World renders the spec as a world. Patterns list every declaring package.
func (s *LSpec) World(name string) *World {
	w := &World{Name: name, Module: DefaultModule, Files: s.Render(), Tags: []string{"layout"}}
	for link, target := range s.DirLinks {
		if w.Symlinks == nil {
			w.Symlinks = map[string]string{}
		}
		w.Symlinks[link] = target
	}
	for link, target := range s.LinkedFiles {
		if _, ok := w.Files[target]; ok {
			if w.Symlinks == nil {
				w.Symlinks = map[string]string{}
			}
			w.Symlinks[link] = target
		}
	}
	seen := map[string]bool{}
	for _, c := range s.Convs {
		if !seen[c.Dir] {
			seen[c.Dir] = true
			if c.Dir == "" {
				w.Patterns = append(w.Patterns, ".")
			} else {
				w.Patterns = append(w.Patterns, "./"+c.Dir)
			}
		}
	}
	for _, d := range s.PlainPkgs {
		w.Patterns = append(w.Patterns, "./"+d)
	}
	if s.GlobalOutFile != "" {
		w.Globals = append(w.Globals, "output:file "+s.GlobalOutFile)
	}
	if s.WrapPkg {
		w.Globals = append(w.Globals, "wrapErrorsUsing "+importPath("errwrap"))
	}
	sort.Strings(w.Patterns)
	if s.compilesWithOutputs() {
		w.Tags = append(w.Tags, "compiles-with-outputs")
	}
	if s.Tag != "" || s.TagList != "" {
		w.BuildTags = strp(s.tag())
		if s.TagList != "" {
			w.BuildTags = strp(s.TagList)
		}
		w.OutputConstraint = strp("!" + s.tag())
	}
	return w
}

// compilesWithOutputs: by construction the module compiles without any build tag once the
// outputs exist (nothing in it is guarded by the tag, refers to not-yet-generated code, or
// injects raw code), so a run whose previous output is visible to the loader must succeed.
func (s *LSpec) compilesWithOutputs() bool {
	if s.WrapPkg || s.GuardedUser || len(s.UserPkgUses) > 0 || s.EqualNames || s.Tag != "" || s.TagList != "" {
		return false
	}
	for _, c := range s.Convs {
		if c.Guarded || c.GuardedDecl || c.ExtIn != "" || c.Raw != "" || c.Defect != "" {
			return false
		}
	}
	return true
}

// two entries share their base name (svc/conv, api/conv): packages of equal name in one run
var dirPool = []string{"a", "b", "svc/conv", "api/conv", "my-cool_pkg", "deep/er/pkg", "x1"}

// DrawLayout draws a layout spec. nConv converters over up to 3 packages.
func DrawLayout(rng *rand.Rand, nConv int, opts LayoutOpts) *LSpec {
	s := &LSpec{UserPkgs: map[string]string{}, PkgNames: map[string]string{}}
	if opts.CustomTags && rng.IntN(2) == 0 {
		s.Tag = []string{"gen", "codegen", "x_y"}[rng.IntN(3)]
	}
	if opts.CustomTags && rng.IntN(3) == 0 {
		// several build tags; the one the constraint negates at a drawn position
		extra := []string{"integration", "tools", "e2e"}
		rng.Shuffle(len(extra), func(i, j int) { extra[i], extra[j] = extra[j], extra[i] })
		tags := append([]string{}, extra[:1+rng.IntN(2)]...)
		at := rng.IntN(len(tags) + 1)
		tags = append(tags[:at], append([]string{s.tag()}, tags[at:]...)...)
		s.TagList = strings.Join(tags, ",")
	}
	nd := 1 + rng.IntN(3)
	dirs := append([]string(nil), dirPool...)
	rng.Shuffle(len(dirs), func(i, j int) { dirs[i], dirs[j] = dirs[j], dirs[i] })
	dirs = dirs[:nd]
	if rng.IntN(3) == 0 {
		dirs = []string{"api/conv", "svc/conv"}
		if rng.IntN(2) == 0 {
			dirs = append(dirs, "a")
		}
	}
	sort.Strings(dirs)
	for _, d := range dirs {
		s.PkgNames[d] = normPkgName(d)
		if rng.IntN(4) == 0 {
			s.PkgNames[d] = "pk" + normPkgName(d) // package name differs from directory name
		}
	}
	letters := []string{"Ka", "Lo", "Mi", "Nu", "Pe", "Ro", "Si", "Ta"}
	rng.Shuffle(len(letters), func(i, j int) { letters[i], letters[j] = letters[j], letters[i] })
	sharedTargets := []string{"@cwd/shared/out.go", "@cwd/common/gen/all.go"}
	for i := 0; i < nConv; i++ {
		c := LConv{Dir: dirs[rng.IntN(len(dirs))], Name: letters[i%len(letters)], Version: 1}
		if i >= len(letters) {
			c.Name += fmt.Sprint(i)
		}
		c.File = []string{"conv.go", "conv.go", "api.go", "my.conv.go", "Conv_File.go", "x-y.go"}[rng.IntN(6)]
		if rng.IntN(4) == 0 {
			c.Kind = "variables"
		} else {
			c.Kind = "interface"
		}
		switch rng.IntN(11) {
		case 9:
			c.OutFile = "./v2/" + strings.ToLower(c.Name) + ".go" // directory name ending in a digit
		case 10:
			c.OutFile = "@cwd/oauth2-" + strings.ToLower(c.Name) + "9/z.go"
		case 0, 1:
			// default
		case 2:
			c.OutFile = "./gen/" + strings.ToLower(c.Name) + ".go"
		case 3:
			c.OutFile = "../up" + strings.ToLower(c.Name) + "/out.go"
		case 4:
			c.OutFile = sharedTargets[rng.IntN(len(sharedTargets))]
		case 5:
			c.OutFile = "./same_" + strings.ToLower(c.Name) + "_gen.go" // same package as the declaration
		case 6:
			c.OutFile = "@cwd/out-" + strings.ToLower(c.Name) + "/z.go"
		case 7:
			if opts.Absolute {
				c.OutFile = RootPlaceholder + "/abs/" + strings.ToLower(c.Name) + "/o.go"
			}
		case 8:
			c.OutFile = "sub/dir/" + strings.ToLower(c.Name) + "_out.go" // no ./ prefix
		}
		if c.OutFile != "" && !strings.HasPrefix(c.OutFile, "./same_") && rng.IntN(4) == 0 {
			// spellings that normalise to the same location
			low := strings.ToLower(c.Name)
			switch {
			case strings.HasPrefix(c.OutFile, "./gen/"):
				c.OutFile = "./tmpdir/../gen/./" + low + ".go"
			case strings.HasPrefix(c.OutFile, "@cwd/out-"):
				c.OutFile = "@cwd/x/../out-" + low + "/./z.go"
			case strings.HasPrefix(c.OutFile, "sub/dir/"):
				c.OutFile = "sub//dir/" + low + "_out.go"
			}
		}
		if rng.IntN(6) == 0 {
			c.Raw = "const Raw" + c.Name + " = \"" + low(c.Name) + "\""
		}
		if c.Kind == "variables" && c.OutFile != "" && !strings.HasPrefix(c.OutFile, "./same_") {
			// a variables block written elsewhere needs an output:package; without one keep
			// the documented default layout
			if rng.IntN(3) == 0 {
				// no output:package: the package is inferred from the location like for any
				// other converter
			} else if rng.IntN(2) == 0 && !strings.HasPrefix(c.OutFile, RootPlaceholder) {
				p := s.Predict(&c)
				d := path.Dir(p.Path)
				if d == "." {
					d = ""
				}
				c.OutPkg = []string{":vars" + strings.ToLower(c.Name), importPath(d) + ":vars" + strings.ToLower(c.Name), importPath(d)}[rng.IntN(3)]
			} else {
				c.OutFile = ""
			}
		}
		if c.Kind == "interface" {
			p := s.Predict(&c)
			d := path.Dir(p.Path)
			if d == "." {
				d = ""
			}
			switch rng.IntN(6) {
			case 0:
				c.OutPkg = importPath(d)
			case 1:
				c.OutPkg = importPath(d) + ":named" + strings.ToLower(c.Name)
			case 2:
				c.OutPkg = ":only" + strings.ToLower(c.Name)
			}
			if strings.HasPrefix(c.OutFile, "./same_") {
				c.OutPkg = "" // must adopt the declaring package
			}
			if rng.IntN(5) == 0 {
				c.Format = "function"
			}
			if rng.IntN(5) == 0 {
				c.ImplName = "Custom" + c.Name
			}
		}
		if opts.Guarded && rng.IntN(4) == 0 {
			c.Guarded = true
		}
		c.PkgFirst = rng.IntN(2) == 0
		if opts.Guarded && !c.Guarded && c.Kind == "interface" && len(dirs) > 1 && rng.IntN(5) == 0 &&
			(c.OutFile == "" || strings.HasPrefix(c.OutFile, "@cwd/out-")) {
			// extend function in another declaring package (no import cycle: only generated
			// code, which lives outside the declaring package here, imports both)
			// the library package imports the declaring package; only "later" directories may
			// host libraries for "earlier" ones, so that no import cycle can arise
			for _, d := range dirs {
				if d > c.Dir {
					c.ExtIn = d
					break
				}
			}
		}
		if rng.IntN(6) == 0 {
			if s.FileConstraint == nil {
				s.FileConstraint = map[string]string{}
			}
			s.FileConstraint[path.Join(c.Dir, c.File)] = []string{"linux || darwin", "(linux || windows) && amd64 || !plan9", "linux", "!js"}[rng.IntN(4)]
		}
		if opts.Guarded && c.Kind == "interface" && rng.IntN(4) == 0 {
			c.GuardedDecl = true
		}
		s.Convs = append(s.Convs, c)
	}
	// converters that share a file must carry the same output:package text
	first := map[string]*LConv{}
	for i := range s.Convs {
		c := &s.Convs[i]
		if c.Kind != "interface" {
			continue
		}
		p := s.Predict(c).Path
		if f, ok := first[p]; ok {
			c.OutPkg = f.OutPkg
		} else {
			first[p] = c
		}
	}
	// a variables block written elsewhere may have landed on a file that other converters
	// select with a different package text: move it to a file of its own
	for guard := 0; hasPathConflict(s) && guard < 8; guard++ {
		ids := map[string]string{}
		for i := range s.Convs {
			c := &s.Convs[i]
			p := s.Predict(c)
			if id, ok := ids[p.Path]; ok && id != p.PkgID {
				c.OutFile = "@cwd/uniq-" + strings.ToLower(c.Name) + "/z.go"
				if c.Kind == "variables" {
					c.OutPkg = importPath("uniq-" + strings.ToLower(c.Name))
				} else {
					c.OutPkg = ""
				}
				break
			}
			ids[p.Path] = p.PkgID
		}
	}
	// some target directories hold a user package already
	if opts.UserPkgs {
		for i := range s.Convs {
			c := &s.Convs[i]
			if c.Kind != "interface" || rng.IntN(3) != 0 {
				continue
			}
			d := path.Dir(s.Predict(c).Path)
			if d == "." {
				d = ""
			}
			if _, declared := s.PkgNames[d]; declared {
				continue
			}
			s.UserPkgs[d] = []string{"weirdname", "existing", normPkgName(d)}[rng.IntN(3)]
			if c.Format != "function" && c.OutPkg == "" && rng.IntN(3) == 0 {
				if s.UserPkgUses == nil {
					s.UserPkgUses = map[string]string{}
				}
				s.UserPkgUses[d] = c.implName()
			}
		}
		// re-align shared-file settings (prediction may have changed names only, paths not)
	}
	if opts.GuardedUser && rng.IntN(3) == 0 {
		s.GuardedUser = true
	}
	if opts.GuardedUser && rng.IntN(5) == 0 {
		s.WrapPkg = true
	}
	hasVars := false
	for i := range s.Convs {
		if s.Convs[i].Kind == "variables" {
			hasVars = true
		}
	}
	if opts.GlobalOutFile && !hasVars && rng.IntN(4) == 0 {
		s.GlobalOutFile = []string{"./cli-gen/out.go", "../cli_up/all.go", "@cwd/cli/shared.go"}[rng.IntN(3)]
		// converters that now share a file must carry the same output:package text
		first := map[string]*LConv{}
		for i := range s.Convs {
			c := &s.Convs[i]
			p := s.Predict(c).Path
			if f, ok := first[p]; ok {
				c.OutPkg = f.OutPkg
			} else {
				first[p] = c
			}
		}
	}
	if rng.IntN(4) == 0 {
		s.PlainPkgs = []string{[]string{"plainpkg", "zz/plainpkg", "aa_plain"}[rng.IntN(3)]}
	}
	if opts.UnsafeZero {
		for i := range s.Convs {
			if s.Convs[i].Kind == "variables" && !s.Convs[i].Guarded && s.Convs[i].ExtIn == "" && rng.IntN(3) == 0 {
				s.Convs[i].Empty = true
				continue
			}
			switch rng.IntN(8) {
			case 0, 1:
				s.Convs[i].UnsafeZero = true
			case 2:
				s.Convs[i].Exotic = "uintptr-list"
			case 3:
				s.Convs[i].Exotic = "unsafeptr-list"
			case 4:
				s.Convs[i].Exotic = "update-func-nosource"
			case 5:
				s.Convs[i].Exotic = "self-ref-types"
			case 6:
				if s.Convs[i].Kind == "interface" && !s.Convs[i].GuardedDecl {
					s.Convs[i].Exotic = "generic-unused-param"
				}
			}
		}
	}
	if opts.Common && rng.IntN(3) == 0 {
		s.Common = true
	}
	if opts.Symlinks && rng.IntN(8) == 0 {
		c := s.Convs[rng.IntN(len(s.Convs))]
		s.LineDirectives = map[string]string{path.Join(c.Dir, c.File): []string{"../tmpl/src.go.tmpl", "gen-" + c.File, "/abs/elsewhere/x.go", "^tmpl/top.go.tmpl"}[rng.IntN(4)]}
	}
	if opts.Symlinks && rng.IntN(5) == 0 {
		c := s.Convs[rng.IntN(len(s.Convs))]
		s.LinkedFiles = map[string]string{path.Join(c.Dir, c.File): "_shared/src/" + strings.ReplaceAll(path.Join(c.Dir, c.File), "/", "_")}
	}
	return s
}

type LayoutOpts struct {
	GlobalOutFile bool
	CustomTags  bool
	Absolute    bool
	Guarded     bool
	UserPkgs    bool
	GuardedUser bool
	Symlinks    bool
	Common      bool
	UnsafeZero  bool
}

// Bump changes the type version of every converter (old outputs stop compiling).
func (s *LSpec) Bump() *LSpec {
	n := *s
	n.Convs = append([]LConv(nil), s.Convs...)
	for i := range n.Convs {
		n.Convs[i].Version++
	}
	return &n
}

func (s *LSpec) Clone() *LSpec {
	n := *s
	n.Convs = append([]LConv(nil), s.Convs...)
	n.UserPkgs = map[string]string{}
	for k, v := range s.UserPkgs {
		n.UserPkgs[k] = v
	}
	if s.FileConstraint != nil {
		n.FileConstraint = map[string]string{}
		for k, v := range s.FileConstraint {
			n.FileConstraint[k] = v
		}
	}
	if s.UserPkgUses != nil {
		n.UserPkgUses = map[string]string{}
		for k, v := range s.UserPkgUses {
			n.UserPkgUses[k] = v
		}
	}
	return &n
}

// Shorten declares only the first method of every converter (outputs get shorter).
func (s *LSpec) Shorten() *LSpec {
	n := s.Clone()
	for i := range n.Convs {
		n.Convs[i].Short = true
	}
	return n
}

// CoverageSpecs enumerates the product output:file form × output:package form × state of
// the target package (absent, user package named like the directory, user package with another
// name) for one interface converter in a nested directory, next to a variables block in a
// second package. Systematic counterpart of DrawLayout.
func CoverageSpecs() []*LSpec {
	var out []*LSpec
	files := []string{"", "./gen/x.go", "../upx/out.go", "@cwd/shared/out.go", "@cwd/svc/conv/local/z.go", "./same_x_gen.go", "sub/dir/x_out.go", "./api/v2/x.go", "@cwd/3rd-party_S3/x.go"}
	for _, of := range files {
		for pk := 0; pk < 4; pk++ {
			for us := 0; us < 3; us++ {
				if strings.HasPrefix(of, "./same_") && (pk != 0 || us != 0) {
					continue
				}
				s := &LSpec{UserPkgs: map[string]string{}, PkgNames: map[string]string{"svc/conv": "conv", "a": "a"}}
				c := LConv{Dir: "svc/conv", File: "conv.go", Kind: "interface", Name: "Xa", OutFile: of, Version: 1}
				d := path.Dir(s.Predict(&c).Path)
				if d == "." {
					d = ""
				}
				switch pk {
				case 1:
					c.OutPkg = importPath(d)
				case 2:
					c.OutPkg = importPath(d) + ":namedxa"
				case 3:
					c.OutPkg = ":onlyxa"
				}
				switch us {
				case 1:
					s.UserPkgs[d] = normPkgName(d)
				case 2:
					s.UserPkgs[d] = "weirdname"
				}
				if _, declaring := s.PkgNames[d]; declaring {
					delete(s.UserPkgs, d)
				}
				s.Convs = []LConv{c, {Dir: "a", File: "vars.go", Kind: "variables", Name: "Vb", Version: 1}}
				out = append(out, s)
				if pk == 0 && !strings.HasPrefix(of, "./same_") && of != "" {
					// the same for a variables block written to that place without output:package
					v := s.Clone()
					v.Convs = []LConv{{Dir: "svc/conv", File: "conv.go", Kind: "variables", Name: "Xv", OutFile: of, Version: 1}}
					out = append(out, v)
				}
				if pk == 0 && us == 2 && len(s.UserPkgs) > 0 {
					// the existing package consists of a _test.go file only
					l := s.Clone()
					l.TestOnlyPkgs = map[string]bool{}
					for d := range l.UserPkgs {
						l.TestOnlyPkgs[d] = true
					}
					out = append(out, l)
				}
				if pk == 0 && us == 1 {
					// the same layout with //line directives in both declaring files
					l := s.Clone()
					l.LineDirectives = map[string]string{"svc/conv/conv.go": "../../templates/conv.go.tmpl", "a/vars.go": "^tmpl/vars.go.tmpl"}
					out = append(out, l)
				}
				if pk == 0 && us == 0 {
					// the same layout with both declaring files reached through symbolic links
					l := s.Clone()
					l.LinkedFiles = map[string]string{"svc/conv/conv.go": "_shared/src/conv.go", "a/vars.go": "_shared/other/vars_src.go"}
					out = append(out, l)
				}
			}
		}
	}
	return append(out, MergeSpecs()...)
}

// MergeSpecs: converters of different declaring packages (and of one package) merged into one
// output file, in every output format, all needing a helper of the same name.
func MergeSpecs() []*LSpec {
	var out []*LSpec
	for _, of := range []string{"@cwd/merged/out.go", "@cwd/svc/conv/generated/generated.go"} {
		for _, format := range []string{"function", "struct", "variables"} {
			s := &LSpec{UserPkgs: map[string]string{}, PkgNames: map[string]string{"svc/conv": "conv", "api/conv": "conv", "a": "a"}, Common: true}
			mk := func(dir, file, name string) LConv {
				c := LConv{Dir: dir, File: file, Kind: "interface", Name: name, OutFile: of, Version: 1, Format: format}
				if format == "variables" {
					c.Kind, c.Format = "variables", ""
				}
				return c
			}
			s.Convs = []LConv{mk("svc/conv", "conv.go", "Ma"), mk("api/conv", "api.go", "Mb"), mk("svc/conv", "conv.go", "Mc"), mk("a", "other.go", "Md")}
			out = append(out, s)
		}
	}
	for _, format := range []string{"struct", "function"} {
		s := &LSpec{UserPkgs: map[string]string{}, PkgNames: map[string]string{"svc/conv": "conv", "api/conv": "conv"}, EqualNames: true}
		s.Convs = []LConv{
			{Dir: "svc/conv", File: "conv.go", Kind: "interface", Name: "Converter", Version: 1, Format: format, OutFile: "@cwd/gen/gen.go"},
			{Dir: "api/conv", File: "api.go", Kind: "interface", Name: "Converter", Version: 1, Format: format, OutFile: "@cwd/gen/gen.go"},
		}
		out = append(out, s)
	}
	for _, top := range []bool{false, true} {
		// cgo declaring files (with and without a //line directive on their first line)
		s := &LSpec{UserPkgs: map[string]string{}, PkgNames: map[string]string{"svc/conv": "conv", "a": "a"}}
		s.Convs = []LConv{
			{Dir: "svc/conv", File: "conv.go", Kind: "interface", Name: "Cg", Version: 1},
			{Dir: "a", File: "vars.go", Kind: "variables", Name: "Ch", Version: 1},
		}
		s.Cgo = map[string]bool{"svc/conv/conv.go": true, "a/vars.go": true}
		if top {
			s.LineDirectives = map[string]string{"svc/conv/conv.go": "^tmpl/conv.go.tmpl"}
		}
		out = append(out, s)
	}
	{
		// a converter interface with a type parameter that no method mentions
		s := &LSpec{UserPkgs: map[string]string{}, PkgNames: map[string]string{"svc/conv": "conv", "a": "a"}}
		s.Convs = []LConv{
			{Dir: "svc/conv", File: "conv.go", Kind: "interface", Name: "Gu", Version: 1, Exotic: "generic-unused-param"},
			{Dir: "a", File: "other.go", Kind: "interface", Name: "Gv", Version: 1, Format: "function", Exotic: "generic-unused-param"},
		}
		out = append(out, s)
	}
	{
		// two output paths that differ only in the letter case of a directory: different
		// files (and packages) on a case-sensitive file system, each written where selected
		s := &LSpec{UserPkgs: map[string]string{}, PkgNames: map[string]string{"svc/conv": "conv", "a": "a"}}
		s.Convs = []LConv{
			{Dir: "svc/conv", File: "conv.go", Kind: "interface", Name: "Ka", Version: 1, OutFile: "./Gen/mapper.go", OutPkg: ":mapgen"},
			{Dir: "svc/conv", File: "conv.go", Kind: "interface", Name: "Kb", Version: 1, OutFile: "./gen/mapper.go", OutPkg: ":mapgen"},
			{Dir: "a", File: "other.go", Kind: "interface", Name: "Kc", Version: 1, OutFile: "@cwd/svc/conv/gen/Mapper2.go", OutPkg: ":mapgen"},
		}
		out = append(out, s)
	}
	// one file selected through three spellings (relative with .., absolute and @cwd/ with
	// redundant segments): still the same file, the converters must be merged
	for _, format := range []string{"struct", "function"} {
		s := &LSpec{UserPkgs: map[string]string{}, PkgNames: map[string]string{"svc/conv": "conv", "api/conv": "conv", "a": "a"}}
		s.Convs = []LConv{
			{Dir: "svc/conv", File: "conv.go", Kind: "interface", Name: "Sa", Version: 1, Format: format, OutFile: "../shared2/gen.go"},
			{Dir: "a", File: "other.go", Kind: "interface", Name: "Sb", Version: 1, Format: format, OutFile: RootPlaceholder + "/a/../svc/shared2/gen.go"},
			{Dir: "api/conv", File: "api.go", Kind: "interface", Name: "Sc", Version: 1, Format: format, OutFile: "@cwd/svc/./shared2/x/../gen.go"},
		}
		out = append(out, s)
	}
	return out
}
