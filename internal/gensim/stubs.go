package gensim

func SelftestDeterminism(repo, vd string, seed uint64) int { return 2 }
