package gensim

func JudgeC15(c *Ctx, h *History, obs []*Obs) ([]Violation, error) { return nil, nil }
func JudgeC16(c *Ctx, h *History, obs []*Obs) ([]Violation, error) { return nil, nil }
func CheckC15(c *Ctx) (*Outcome, error)                             { return nil, &InfraError{Msg: "todo"} }
func CheckC16(c *Ctx) (*Outcome, error)                             { return nil, &InfraError{Msg: "todo"} }
func SelftestDeterminism(repo, vd string, seed uint64) int          { return 2 }
