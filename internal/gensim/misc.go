package gensim

import (
	"fmt"
	"sort"
	"strings"
	"time"
)

// ValidateSeam checks (DESIGN §3.1 c) that the rewritten node in identity order behaves
// byte-identically to the unmodified binary on a sample of the scenario corpus plus the
// templates: exit status, stderr, produced files.
func ValidateSeam(c *Ctx, max int) error {
	corpus, err := LoadScenarios(c.Node.RepoDir)
	if err != nil {
		return &InfraError{Msg: "scenarios: " + err.Error()}
	}
	rng := c.Rng("validate-seam", 0)
	var ws []*World
	// templates are deliberately order-sensitive (the unmodified binary is natively
	// nondeterministic on them), so the seam is validated on the hand-written corpus only
	rng.Shuffle(len(corpus), func(i, j int) { corpus[i], corpus[j] = corpus[j], corpus[i] })
	for i := 0; i < len(corpus) && len(ws) < max; i++ {
		ws = append(ws, corpus[i])
	}
	judge := func(c *Ctx, h *History, obs []*Obs) ([]Violation, error) {
		a, b := obs[0], obs[1]
		if a.Exit != b.Exit || a.Stderr != b.Stderr || a.Stdout != b.Stdout {
			// the unmodified binary is natively nondeterministic on some failing inputs
			// (that is what C09 checks); only successful runs must agree exactly.
			if a.Exit == 0 || b.Exit == 0 {
				return []Violation{{Class: "seam", Msg: fmt.Sprintf("%s: orig exit=%d sim exit=%d stderr %q vs %q", h.World.Name, a.Exit, b.Exit, trunc(a.Stderr, 200), trunc(b.Stderr, 200))}}, nil
			}
			return nil, nil
		}
		if a.Exit == 0 {
			for p, ca := range a.Written {
				if cb, ok := b.Written[p]; !ok || cb != ca {
					return []Violation{{Class: "seam", Msg: fmt.Sprintf("%s: file %s differs between unmodified and rewritten binary", h.World.Name, p)}}, nil
				}
			}
			if len(a.Written) != len(b.Written) {
				return []Violation{{Class: "seam", Msg: h.World.Name + ": different file sets"}}, nil
			}
		}
		return nil, nil
	}
	mk := func(i int) ([]*History, error) {
		w := ws[i]
		// two separate trees: run orig in one, sim in the other, compare
		h := &History{World: w, Ops: []Op{
			{Kind: "gen", Gen: &GenSpec{Orig: true, Plan: planIdentity()}},
		}}
		_ = h
		return nil, nil
	}
	_ = mk
	var bad []string
	found, err := c.RunCases(len(ws), func(i int) ([]*History, error) {
		return []*History{{World: ws[i], Ops: []Op{{Kind: "gen", Gen: &GenSpec{Orig: true, Plan: planIdentity()}}}}}, nil
	}, func(c *Ctx, h *History, obs []*Obs) ([]Violation, error) {
		h2 := &History{World: h.World, Ops: []Op{{Kind: "gen", Gen: &GenSpec{Plan: planIdentity()}}}}
		obs2, err := c.Runner.Exec(h2)
		if err != nil {
			return nil, err
		}
		vs, err := judge(c, h, []*Obs{obs[0], obs2[0]})
		for retry := 0; retry < 4 && err == nil && len(vs) > 0; retry++ {
			// tolerate native map-order nondeterminism of the unmodified binary: any of
			// several native runs may match the identity-order node
			o, err2 := c.Runner.Exec(h)
			if err2 != nil {
				return nil, err2
			}
			vs, err = judge(c, h, []*Obs{o[0], obs2[0]})
		}
		return vs, err
	}, nil)
	if err != nil {
		return err
	}
	for _, f := range found {
		bad = append(bad, f.V.Msg)
	}
	c.Stats.Add("seam_validation_worlds", int64(len(ws)))
	if len(bad) > 0 {
		sort.Strings(bad)
		return &InfraError{Msg: "seam validation failed (rewritten binary differs from unmodified binary in identity order):\n" + strings.Join(bad, "\n")}
	}
	return nil
}

// JudgeFor returns the oracle of a property.
func JudgeFor(id string) Judge {
	switch id {
	case "C09":
		return JudgeC09
	case "C15":
		return JudgeC15
	case "C16":
		return JudgeC16
	case "C17":
		return JudgeC17
	}
	return nil
}

// FillCoverage assembles the evidence coverage object from measured counters.
func FillCoverage(c *Ctx, out *Outcome) {
	s := c.Stats
	wall := time.Since(s.Start).Seconds()
	prefix := strings.ToLower(out.Property)
	cov := map[string]any{}
	if out.Coverage != nil {
		cov = out.Coverage
	}
	inv := c.Runner.Invocations.Load()
	cov["evaluations"] = s.Get("gen_ops")
	cov["distinct_nontrivial"] = s.SetSize(prefix + ".nontrivial")
	cov["histories"] = s.Get("histories")
	cov["node_invocations"] = inv
	cov["node_invocations_per_hour"] = int64(float64(inv) / wall * 3600)
	cov["histories_per_hour"] = int64(float64(s.Get("histories")) / wall * 3600)
	cov["simulated_time"] = map[string]any{
		"note":                     "goverter has no timers or deadlines; progress is measured in steps (node invocations, disk calls). The one clock that matters is the go command's 2-second module-index rule (DESIGN N9/F9): the simulator owns it as a file-age regime per run",
		"file_age_settled_runs":    s.Get("file_age.settled"),
		"file_age_fresh_runs":      s.Get("file_age.fresh"),
		"modification_clock_ticks": settleClock.Load(),
		"wall_clock_per_gen_op_ms": int64(wall * 1000 / float64(max64(1, s.Get("gen_ops")))),
	}
	cov["steps_disk_calls_and_gens"] = s.Get("gen_ops")
	cov["ref_runs"] = s.Get("ref_runs")
	cov["shrink_runs"] = s.Get("shrink_runs")
	cov["worlds"] = s.Get("worlds")
	cov["faults_fired_by_kind"] = s.CountersWithPrefix("fault_fired.")
	cov["crashes"] = s.Get("crashes")
	cov["gens_over_prior_outputs"] = s.Get("gens_over_prior_outputs")
	reach := map[string]int64{}
	reachNon := map[string]int64{}
	for k, v := range s.CountersWithPrefix("reach.range_site.") {
		var id int
		fmt.Sscan(k, &id)
		reach[c.Node.SiteName(id)] = v
	}
	for k, v := range s.CountersWithPrefix("reach.range_site_nonid.") {
		var id int
		fmt.Sscan(k, &id)
		reachNon[c.Node.SiteName(id)] = v
	}
	var zero []string
	for _, id := range c.Node.RangeSites() {
		if _, ok := reach[c.Node.SiteName(id)]; !ok {
			zero = append(zero, c.Node.SiteName(id))
		}
	}
	cov["map_range_sites_total"] = len(c.Node.RangeSites())
	cov["reach_range_site_visits_with_2plus_entries"] = reach
	cov["reach_range_site_visits_under_non_identity_order"] = reachNon
	cov["range_sites_never_reached_with_2plus_entries"] = zero
	cov["probe_counters"] = s.CountersWithPrefix(prefix + ".")
	cov["world_tags"] = s.CountersWithPrefix("world_tag.")
	cov["ambient_reads"] = s.CountersWithPrefix("ambient.")
	cov["go_statements_seamed"] = c.Node.HasKind("go")
	cov["violations_before_dedup"] = s.Get("violations_raw")
	cov["unseamed_warnings"] = c.Node.Warnings
	cov["seam_validation_worlds"] = s.Get("seam_validation_worlds")
	if _, ok := cov["rule"]; !ok {
		cov["rule"] = "cases are gen operations inside seeded histories; a case is non-trivial when at least one map-range site was visited with >=2 entries under a non-identity order, or a disk fault fired, or outputs of an earlier run were present; distinct = distinct (world hash, input hash, order plan, faults fired, prior-output presence, patterns, cwd form, location, plan seed) tuples, counted"
	}
	samples := s.Samples
	if len(samples) == 0 {
		samples = []any{"(no sample recorded)"}
	}
	cov["samples"] = samples
	cov["real_vs_stub"] = map[string]any{
		"real": []string{"all goverter packages (only range-over-map operands, mutating os.* selectors and time.Now/os.Getpid/os.Hostname are redirected)", "cli.Run incl. exit paths", "dave/jennifer (same rewrite)", "golang.org/x/tools/go/packages and the `go list` child", "kernel file system under the scratch directory"},
		"stub": []string{"map iteration order (verifsim.Seq2)", "failure/tear/crash behaviour of mutating disk calls (verifsim disk layer)", "wall clock / pid / hostname (not used by goverter today)"},
	}
	out.Coverage = cov
	out.Assume = append(out.Assume,
		"packages.Load returns the same packages in the same order for the same tree and pattern list regardless of goroutine scheduling (measured by the determinism self-test and by varying GOMAXPROCS, not proved)",
		"fmt %#v order of map keys (strings, structs of strings) is canonical",
		"a crash loses exactly what had not been handed to the kernel by a completed write (no page-cache loss model)",
		"the seam rewrite preserves behaviour (validated each run: identity-order node == unmodified binary on sampled worlds; rewritten range-site count == independent type-based count)")
}

func max64(a, b int64) int64 {
	if a > b {
		return a
	}
	return b
}
