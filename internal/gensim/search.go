package gensim

import (
	"encoding/json"
	"fmt"
	"sort"
	"sync"
	"time"
)

// Found is a violation together with the history that produced it.
type Found struct {
	V Violation
	H *History
	// Native: executing the identical history (same world, ops, plans) again did not give
	// the same verdict or message: the difference comes from a source outside the seams (the
	// loader's goroutines, the go command). Such a finding replays by repetition only.
	Native bool
}

// RunCases executes cases on the worker pool; cases are identified by index so the set of
// executions is the same for every worker count.
func (c *Ctx) RunCases(n int, mk func(i int) ([]*History, error), judge Judge, onObs func(h *History, obs []*Obs)) ([]Found, error) {
	var (
		mu     sync.Mutex
		found  []Found
		ferr   error
		wg     sync.WaitGroup
		idx    = make(chan int)
	)
	workers := c.Workers
	if workers < 1 {
		workers = 1
	}
	for w := 0; w < workers; w++ {
		wg.Add(1)
		go func() {
			defer wg.Done()
			for i := range idx {
				hs, err := mk(i)
				if err != nil {
					mu.Lock()
					if ferr == nil {
						ferr = err
					}
					mu.Unlock()
					continue
				}
				for _, h := range hs {
					obs, err := c.Runner.Exec(h)
					if err != nil {
						mu.Lock()
						if ferr == nil {
							ferr = err
						}
						mu.Unlock()
						continue
					}
					c.Stats.Add("histories", 1)
					c.Stats.Add("gen_ops", int64(len(obs)))
					for _, o := range obs {
						if g := h.Ops[o.OpIndex].Gen; g != nil && g.FileAge == "fresh" {
							c.Stats.Add("file_age.fresh", 1)
						} else {
							c.Stats.Add("file_age.settled", 1)
						}
					}
					if onObs != nil {
						onObs(h, obs)
					}
					vs, err := judge(c, h, obs)
					if err != nil {
						mu.Lock()
						if ferr == nil {
							ferr = err
						}
						mu.Unlock()
						continue
					}
					if len(vs) > 0 {
						mu.Lock()
						found = append(found, Found{V: vs[0], H: h})
						mu.Unlock()
					}
				}
			}
		}()
	}
	for i := 0; i < n; i++ {
		idx <- i
	}
	close(idx)
	wg.Wait()
	return found, ferr
}

// Fails re-executes a history and says whether the judge still reports a violation of
// the given class.
func (c *Ctx) Fails(h *History, judge Judge, class string) (bool, *Violation) {
	obs, err := c.Runner.Exec(h)
	if err != nil {
		return false, nil
	}
	c.Stats.Add("shrink_runs", 1)
	vs, err := judge(c, h, obs)
	if err != nil {
		return false, nil
	}
	for i := range vs {
		if vs[i].Class == class {
			return true, &vs[i]
		}
	}
	return false, nil
}

func cloneHistory(h *History) *History {
	b, _ := json.Marshal(h)
	var n History
	_ = json.Unmarshal(b, &n)
	return &n
}

// Shrink minimises a failing history while the same violation class persists:
// drop ops, then simplify the last gen's plan (sites → one site, perm → reverse/rotate,
// faults → one), then its environment, then drop world files.
func (c *Ctx) Shrink(f Found, judge Judge, budget time.Duration) (Found, []string) {
	deadline := time.Now().Add(budget)
	var log []string
	cur := cloneHistory(f.H)
	curV := f.V
	// 0. stability: is the verdict a function of the recorded history at all?
	native := false
	{
		fails, msgs := 0, map[string]bool{f.V.Msg: true}
		const reps = 4
		for i := 0; i < reps; i++ {
			ok, v := c.Fails(cloneHistory(cur), judge, f.V.Class)
			if ok {
				fails++
				msgs[v.Msg] = true
			}
		}
		if fails < reps || len(msgs) > 1 {
			native = true
			c.Stats.Add("native_nondeterminism_findings", 1)
			log = append(log, fmt.Sprintf("the identical history failed in %d of %d further executions with %d distinct messages: nondeterminism outside the seams; replay is by repetition, every shrink step is retried", fails, reps, len(msgs)))
		}
	}
	try := func(cand *History, what string) bool {
		tries := 1
		if native {
			tries = 4
		}
		for t := 0; t < tries; t++ {
			if time.Now().After(deadline) {
				return false
			}
			ok, v := c.Fails(cand, judge, f.V.Class)
			if ok {
				cur = cand
				curV = *v
				log = append(log, what)
				return true
			}
		}
		return false
	}
	// 1. drop ops (never the last gen)
	for changed := true; changed; {
		changed = false
		for i := 0; i < len(cur.Ops)-1; i++ {
			cand := cloneHistory(cur)
			cand.Ops = append(cand.Ops[:i], cand.Ops[i+1:]...)
			if try(cand, fmt.Sprintf("drop op %d (%s)", i, cur.Ops[i].Kind)) {
				changed = true
				break
			}
		}
	}
	// locate the failing gen
	gi := curV.OpIndex
	if gi >= len(cur.Ops) || cur.Ops[gi].Kind != "gen" {
		for i := len(cur.Ops) - 1; i >= 0; i-- {
			if cur.Ops[i].Kind == "gen" {
				gi = i
				break
			}
		}
	}
	// 2. environment → canonical
	{
		cand := cloneHistory(cur)
		g := cand.Ops[gi].Gen
		g.Cwd, g.Gomaxprocs, g.Umask = "", 0, 0
		cand.Loc = 0
		try(cand, "environment → chdir, default GOMAXPROCS, loc 0")
		cand = cloneHistory(cur)
		cand.Ops[gi].Gen.Patterns = nil
		try(cand, "patterns → canonical")
	}
	// 2b. goroutine schedule → native
	if gm := cur.Ops[gi].Gen.Plan.Goroutines; gm != "" && gm != "native" {
		cand := cloneHistory(cur)
		cand.Ops[gi].Gen.Plan.Goroutines = ""
		try(cand, "goroutine mode → native (simulated goroutine order is irrelevant)")
	}
	// 3. order plan
	g := cur.Ops[gi].Gen
	if g.Plan.Order.Mode != "" && g.Plan.Order.Mode != "identity" {
		cand := cloneHistory(cur)
		cand.Ops[gi].Gen.Plan.Order.Mode = "identity"
		cand.Ops[gi].Gen.Plan.Order.Sites = nil
		if !try(cand, "order → identity (order is irrelevant)") {
			// find one culpable site
			var sites []int
			if cur.Ops[gi].Gen.Plan.Order.Sites != nil {
				sites = cur.Ops[gi].Gen.Plan.Order.Sites
			} else {
				sites = c.Node.RangeSites()
			}
			for _, s := range sites {
				cand := cloneHistory(cur)
				cand.Ops[gi].Gen.Plan.Order.Sites = []int{s}
				if try(cand, fmt.Sprintf("order perturbed only at site %d = %s", s, c.Node.SiteName(s))) {
					break
				}
			}
			for _, m := range []struct {
				mode string
				k    int
			}{{"reverse", 0}, {"rotate", 1}} {
				cand := cloneHistory(cur)
				cand.Ops[gi].Gen.Plan.Order.Mode = m.mode
				cand.Ops[gi].Gen.Plan.Order.K = m.k
				if try(cand, "order mode → "+m.mode) {
					break
				}
			}
		}
	}
	// 4. faults → fewer
	for len(cur.Ops[gi].Gen.Plan.Faults) > 1 {
		shr := false
		for i := range cur.Ops[gi].Gen.Plan.Faults {
			cand := cloneHistory(cur)
			fs := cand.Ops[gi].Gen.Plan.Faults
			cand.Ops[gi].Gen.Plan.Faults = append(fs[:i:i], fs[i+1:]...)
			if try(cand, fmt.Sprintf("drop fault %d", i)) {
				shr = true
				break
			}
		}
		if !shr {
			break
		}
	}
	// 5. drop world files (whole packages first) — not for spec-driven histories, whose
	// models are evaluated against the spec
	hasSpec := false
	for _, op := range cur.Ops {
		if op.Gen != nil && op.Gen.Spec != nil {
			hasSpec = true
		}
	}
	if !hasSpec {
		dirs := map[string][]string{}
		for p := range cur.World.Files {
			d := p
			if i := lastSlash(p); i >= 0 {
				d = p[:i]
			} else {
				d = ""
			}
			dirs[d] = append(dirs[d], p)
		}
		var ds []string
		for d := range dirs {
			ds = append(ds, d)
		}
		sort.Strings(ds)
		for _, d := range ds {
			if len(cur.World.Files) <= 1 {
				break
			}
			cand := cloneHistory(cur)
			for _, p := range dirs[d] {
				delete(cand.World.Files, p)
			}
			var pats []string
			for _, p := range cand.World.Patterns {
				if p != "./"+d && p != cand.World.Module+"/"+d {
					pats = append(pats, p)
				}
			}
			if len(pats) == 0 {
				continue
			}
			cand.World.Patterns = pats
			for k := range cand.Ops {
				if cand.Ops[k].Gen != nil {
					cand.Ops[k].Gen.Patterns = nil
				}
			}
			try(cand, "drop package "+d)
		}
	}
	return Found{V: curV, H: cur, Native: native}, log
}

func lastSlash(s string) int {
	for i := len(s) - 1; i >= 0; i-- {
		if s[i] == '/' {
			return i
		}
	}
	return -1
}

// CulpritSite extracts, from a minimised history, the single perturbed site (or -1).
func CulpritSite(h *History, opIndex int) int {
	if opIndex < 0 || opIndex >= len(h.Ops) || h.Ops[opIndex].Gen == nil {
		return -1
	}
	s := h.Ops[opIndex].Gen.Plan.Order.Sites
	if len(s) == 1 && h.Ops[opIndex].Gen.Plan.Order.Mode != "identity" {
		return s[0]
	}
	return -1
}
