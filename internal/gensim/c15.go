package gensim

import (
	"fmt"
	"go/ast"
	"go/parser"
	"go/token"
	"math/rand/v2"
	"path"
	"sort"
	"strings"
)

func effUmask(g *GenSpec) uint32 {
	if g.Umask == 0 {
		return 0o022
	}
	return uint32(g.Umask)
}

// declares reports whether the parsed file declares what the converter must emit.
func declares(f *ast.File, c *LConv) bool {
	if c.Empty {
		return true // an empty variables block has nothing to declare
	}
	want := ""
	switch {
	case c.Kind == "variables":
		want = "func:init"
	case c.Format == "function":
		want = "func:" + c.method(0)
	default:
		want = "type:" + c.implName()
	}
	for _, d := range f.Decls {
		switch x := d.(type) {
		case *ast.FuncDecl:
			if x.Recv == nil && "func:"+x.Name.Name == want {
				return true
			}
		case *ast.GenDecl:
			for _, s := range x.Specs {
				if ts, ok := s.(*ast.TypeSpec); ok && "type:"+ts.Name.Name == want {
					return true
				}
			}
		}
	}
	return false
}

// duplicateDecl names a package-level identifier (or method) that a file declares twice.
func duplicateDecl(f *ast.File) string {
	seen := map[string]bool{}
	note := func(k string) string {
		if seen[k] {
			return k
		}
		seen[k] = true
		return ""
	}
	for _, d := range f.Decls {
		switch x := d.(type) {
		case *ast.FuncDecl:
			if x.Name.Name == "init" || x.Name.Name == "_" {
				continue
			}
			k := "func " + x.Name.Name
			if x.Recv != nil && len(x.Recv.List) == 1 {
				t := x.Recv.List[0].Type
				if st, ok := t.(*ast.StarExpr); ok {
					t = st.X
				}
				if id, ok := t.(*ast.Ident); ok {
					k = "method " + id.Name + "." + x.Name.Name
				}
			}
			if r := note(k); r != "" {
				return r
			}
		case *ast.GenDecl:
			for _, sp := range x.Specs {
				switch y := sp.(type) {
				case *ast.TypeSpec:
					if r := note("func " + y.Name.Name); r != "" { // types, funcs, vars share one namespace
						return "type " + y.Name.Name
					}
				case *ast.ValueSpec:
					for _, n := range y.Names {
						if n.Name == "_" {
							continue
						}
						if r := note("func " + n.Name); r != "" {
							return "identifier " + n.Name
						}
					}
				}
			}
		}
	}
	return ""
}

// JudgeC15: each converter lands in the configured file and package; nothing else is written.
func JudgeC15(c *Ctx, h *History, obs []*Obs) ([]Violation, error) {
	var out []Violation
	for _, o := range obs {
		g := h.Ops[o.OpIndex].Gen
		if g.Setup || g.Spec == nil || !faultFree(g) || g.Argv != nil {
			continue
		}
		if o.TimedOut {
			return nil, &InfraError{Msg: "node timed out"}
		}
		add := func(class, msg string) {
			out = append(out, Violation{Property: "C15", Class: class, OpIndex: o.OpIndex, Msg: msg})
		}
		spec := g.Spec
		pred := map[string][]*LConv{}
		pkgOf := map[string]Predicted{}
		conflict := ""
		ambiguous := false
		for i := range spec.Convs {
			cv := &spec.Convs[i]
			p := spec.Predict(cv)
			if prev, ok := pkgOf[p.Path]; ok {
				switch {
				case prev.PkgPath != p.PkgPath || prev.PkgName != p.PkgName:
					// the converters select different packages for one file: must fail
					conflict = p.Path
				case prev.PkgID != p.PkgID:
					// same package reached through different setting texts (e.g. `path:name`
					// vs `path` + inferred name): the property does not say whether this counts
					// as agreement, so nothing is demanded either way
					ambiguous = true
				}
			}
			if _, ok := pkgOf[p.Path]; !ok {
				pkgOf[p.Path] = p
			}
			pred[p.Path] = append(pred[p.Path], cv)
		}
		mut := o.DiskEvents()
		if conflict != "" {
			c.Stats.Add("c15.conflict_runs", 1)
			if o.Exit != 1 {
				add("conflict-accepted", fmt.Sprintf("converters route to %s with different packages; the run must fail, exit=%d", conflict, o.Exit))
			} else if len(mut) > 0 || !o.Diff.Empty() {
				add("conflict-wrote", fmt.Sprintf("same file / different package run failed but wrote: calls=%d created=%v modified=%v", len(mut), o.Diff.Created, o.Diff.Modified))
			}
			continue
		}
		if g.Expect == "fail" || ambiguous {
			c.Stats.Add("c15.skipped_ambiguous_or_defective", 1)
			continue
		}
		if o.Exit != 0 && hasNulBody(o, effTags(g, h.World)) {
			// known finding F20 (C16/C09): a stale output with NUL bytes blocks the go tool
			c.Stats.Add("c15.skipped_blocked_by_stale_output_with_nul_bytes", 1)
			continue
		}
		if o.Exit != 0 && g.FileAge != "fresh" && lacksPackageClause(o, effTags(g, h.World)) {
			// known finding F9 (a stale output without package clause blocks the go tool):
			// C16's and C09's subject, not a question of where output lands
			c.Stats.Add("c15.skipped_blocked_by_stale_output_without_package_clause", 1)
			continue
		}
		if o.Exit != 0 && spec.EqualNames && o.Exit == 1 && strings.TrimSpace(o.Stderr) != "" {
			c.Stats.Add("c15.equal_names_refused", 1)
			continue
		}
		if o.Exit != 0 {
			add("documented-layout-rejected", fmt.Sprintf("healthy converters in documented layouts, exit=%d: %s", o.Exit, trunc(o.Stderr, 400)))
			continue
		}
		c.Stats.Add("c15.success_runs_checked", 1)
		// (a) path set
		got := map[string]bool{}
		for _, p := range o.Diff.Created {
			if !o.After[p].Dir {
				got[p] = true
			}
		}
		for _, p := range append(append([]string{}, o.Diff.Modified...), o.Diff.Touched...) {
			if !o.After[p].Dir {
				got[p] = true
			}
		}
		for _, e := range mut {
			if e.Op == "WriteFile" {
				got[path.Clean(strings.TrimPrefix(e.Path, "@root/"))] = true
			}
		}
		var gotL, wantL []string
		for p := range got {
			gotL = append(gotL, p)
		}
		for p := range pred {
			wantL = append(wantL, p)
		}
		sort.Strings(gotL)
		sort.Strings(wantL)
		if strings.Join(gotL, "\n") != strings.Join(wantL, "\n") {
			add("path-set", fmt.Sprintf("files written %v, model predicts exactly %v", gotL, wantL))
			continue
		}
		// (b) directories: created dirs are exactly the missing ancestors of predicted files
		anc := map[string]bool{}
		for p := range pred {
			for d := path.Dir(p); d != "." && d != "/"; d = path.Dir(d) {
				anc[d] = true
			}
		}
		bad := false
		for _, p := range o.Diff.Created {
			if o.After[p].Dir && !anc[p] {
				add("extra-directory", "directory "+p+" created but is not an ancestor of any output file")
				bad = true
			}
		}
		for d := range anc {
			if e, ok := o.After[d]; !ok || !e.Dir {
				add("missing-directory", "ancestor directory "+d+" does not exist after a successful run")
				bad = true
			}
		}
		if bad {
			continue
		}
		// (c) content: one package clause, equal to the model's; declarations present
		for _, p := range wantL {
			content := o.Outputs[p]
			// known finding F11: with a symbolic link as -cwd an absolute output:file of this
			// file is spelled through another path (the link target) than the working directory
			// and the declaring files (the link): package identity and file identity are
			// derived from the two spellings lexically
			sfx := ""
			for _, cv := range pred[p] {
				if (g.Cwd == "symlink" || g.Cwd == "chdir-symlink" || g.Cwd == "symlink-rel" || g.Cwd == "dotdot-symlink") && strings.HasPrefix(cv.OutFile, RootPlaceholder) {
					sfx = "/absolute-output-file-spelled-through-other-path-than-cwd"
				}
			}
			add := func(class, msg string) { add(class+sfx, msg) }
			if _, isInput := o.Inputs[p]; isInput {
				add("overwrote-input", "output path "+p+" is an input file")
				break
			}
			fset := token.NewFileSet()
			f, err := parser.ParseFile(fset, p, content, parser.ParseComments)
			if err != nil {
				add("not-well-formed", fmt.Sprintf("%s does not parse: %v", p, err))
				break
			}
			if f.Name.Name != pkgOf[p].PkgName {
				cls := "package-clause"
				add(cls, fmt.Sprintf("%s has `package %s`, model (output:package / existing package / normalised directory) says `package %s`", p, f.Name.Name, pkgOf[p].PkgName))
				break
			}
			if dup := duplicateDecl(f); dup != "" {
				cls := "merged-file-not-well-formed"
				if spec.EqualNames {
					// known finding F19: equal declared names are neither merged nor refused
					cls += "/equal-declared-names"
				}
				add(cls, fmt.Sprintf("%s declares %s more than once (%d converters merged into it)", p, dup, len(pred[p])))
				break
			}
			for _, cv := range pred[p] {
				// a converter written into another package than the one declaring it must
				// import that package (its types, and for variables the variables, live there)
				if pkgOf[p].PkgPath != importPath(cv.Dir) {
					imported := false
					for _, im := range f.Imports {
						if strings.Trim(im.Path.Value, `"`) == importPath(cv.Dir) {
							imported = true
						}
					}
					if !imported {
						add("declaring-package-not-imported", fmt.Sprintf("%s (package %s) holds converter %s of package %s but does not import it: the code was rendered for the wrong package", p, pkgOf[p].PkgPath, cv.Name, importPath(cv.Dir)))
						break
					}
				}
				if !declares(f, cv) {
					add("converter-missing", fmt.Sprintf("%s lacks the declaration for converter %s (%s)", p, cv.Name, cv.Kind))
					break
				}
			}
		}
		if len(out) > 0 {
			continue
		}
		// (d) seam: mode arguments of the calls that carry one. Other ways of writing (temp
		// file + rename, OpenFile) are legitimate; for them the on-disk modes under the drawn
		// umask (e) decide.
		for _, e := range mut {
			rel := strings.TrimPrefix(e.Path, "@root/")
			switch e.Op {
			case "MkdirAll":
				if e.Mode != 0o755 {
					add("mkdir-mode", fmt.Sprintf("MkdirAll(%s) called with mode %#o, property says 0755 before umask", rel, e.Mode&0o7777))
				}
			case "WriteFile":
				if e.Mode != 0o644 {
					add("write-mode", fmt.Sprintf("WriteFile(%s) called with mode %#o, property says 0644 before umask", rel, e.Mode))
				}
			}
		}
		// (e) on-disk modes of new entries
		um := effUmask(g)
		for _, p := range o.Diff.Created {
			e := o.After[p]
			perm := e.Mode & 0o7777
			if e.Dir {
				if perm != 0o755&^um {
					add("dir-mode-on-disk", fmt.Sprintf("new directory %s has mode %#o, want 0755 &^ umask %#o = %#o", p, perm, um, 0o755&^um))
				}
			} else if perm != 0o644&^um {
				add("file-mode-on-disk", fmt.Sprintf("new file %s has mode %#o, want 0644 &^ umask %#o = %#o", p, perm, um, 0o644&^um))
			}
		}
		for _, p := range o.Diff.Modified {
			if b, ok := o.Before[p]; ok && !b.Dir && b.Mode != o.After[p].Mode {
				add("mode-changed", fmt.Sprintf("existing file %s changed mode %#o → %#o", p, b.Mode&0o7777, o.After[p].Mode&0o7777))
			}
		}
	}
	if len(out) > 1 {
		out = out[:1]
	}
	return out, nil
}

// injectConflict makes two interface converters select one file with different packages.
func injectConflict(rng *rand.Rand, s *LSpec) bool {
	var idx []int
	for i := range s.Convs {
		if s.Convs[i].Kind == "interface" {
			idx = append(idx, i)
		}
	}
	if len(idx) < 2 {
		return false
	}
	rng.Shuffle(len(idx), func(i, j int) { idx[i], idx[j] = idx[j], idx[i] })
	a, b := &s.Convs[idx[0]], &s.Convs[idx[1]]
	a.OutFile, b.OutFile = "@cwd/clash/c.go", "@cwd/clash/c.go"
	switch rng.IntN(5) {
	case 3:
		// one names the package, the other leaves it to be inferred (directory name)
		a.OutPkg, b.OutPkg = ":custom"+strings.ToLower(a.Name), ""
	case 4:
		a.OutPkg, b.OutPkg = importPath("clash"), importPath("clash")+":custom"+strings.ToLower(b.Name)
	case 0:
		a.OutPkg, b.OutPkg = importPath("clash")+":one", importPath("clash")+":two"
	case 1:
		a.OutPkg, b.OutPkg = importPath("clash"), importPath("elsewhere")
	default:
		a.OutPkg, b.OutPkg = ":one", ":two"
	}
	return true
}

func c15Gen(rng *rand.Rand, spec *LSpec, w *World, env bool) Op {
	g := &GenSpec{Plan: planIdentity(), Spec: spec, Expect: "ok"}
	if env {
		envVariant(rng, g, w)
		g.Umask = []int{0, 0o022, 0o027, 0o077, 0o002, 0o007}[rng.IntN(6)]
		if rng.IntN(2) == 0 {
			g.Plan = planAll("perm", 0, rng.Uint64())
		}
		if rng.IntN(4) == 0 && len(spec.Convs) > 0 {
			// invoked inside a package directory, as `//go:generate goverter gen .` does
			sub := spec.Convs[rng.IntN(len(spec.Convs))].Dir
			if sub != "" {
				sp := spec.Clone()
				sp.CwdDir = sub
				g.Spec = sp
				g.Cwd = "sub:" + sub
			}
		}
	}
	return genOp(g)
}

// CheckC15 runs the C15 exploration.
func CheckC15(c *Ctx) (*Outcome, error) {
	nLayouts, nHist := 260, 60
	if c.Tier == "thorough" {
		nLayouts, nHist = 4000, 800
	}
	note := c.noteObs("c15aux")
	opts := LayoutOpts{CustomTags: true, Absolute: true, Guarded: true, UserPkgs: true, GuardedUser: true, GlobalOutFile: true, Symlinks: true, Common: true}
	onObs := func(h *History, obs []*Obs) {
		note(h, obs)
		for _, o := range obs {
			g := h.Ops[o.OpIndex].Gen
			if g.Setup || g.Spec == nil {
				continue
			}
			// distinct layout cases: (spec forms, cwd form, umask, loc, prior state)
			var forms []string
			for _, cv := range g.Spec.Convs {
				forms = append(forms, cv.Kind+"|"+cv.OutFile+"|"+cv.OutPkg+"|"+cv.Format+"|"+cv.Dir)
			}
			key := fmt.Sprintf("%v|%v|%s|%o|%d|%v", forms, g.Spec.UserPkgs, g.Cwd, g.Umask, h.Loc, len(o.PriorOutputs) > 0)
			if len(g.Spec.Convs) > 1 || g.Cwd != "" || g.Umask != 0 || len(o.PriorOutputs) > 0 {
				c.Stats.Distinct("c15.nontrivial", key)
			}
			for _, cv := range g.Spec.Convs {
				form := "default"
				switch {
				case strings.HasPrefix(cv.OutFile, "@cwd/"):
					form = "@cwd"
				case strings.HasPrefix(cv.OutFile, RootPlaceholder):
					form = "absolute"
				case strings.HasPrefix(cv.OutFile, "../"):
					form = "parent"
				case strings.HasPrefix(cv.OutFile, "./same_"):
					form = "same-package"
				case cv.OutFile != "":
					form = "relative"
				}
				c.Stats.Add("c15.form_file_"+form, 1)
				pf := "absent"
				switch {
				case strings.HasPrefix(cv.OutPkg, ":"):
					pf = ":name"
				case strings.Contains(cv.OutPkg, ":"):
					pf = "path:name"
				case cv.OutPkg != "":
					pf = "path"
				}
				c.Stats.Add("c15.form_pkg_"+pf, 1)
			}
			c.Stats.Add(fmt.Sprintf("c15.umask_%03o", effUmask(g)), 1)
			cw := g.Cwd
			if strings.HasPrefix(cw, "sub:") || strings.HasPrefix(cw, "sublink:") {
				cw = "package-dir"
			} else if cw == "" {
				cw = "chdir"
			}
			c.Stats.Add("c15.cwd_"+cw, 1)
		}
	}
	mk := func(i int) ([]*History, error) {
		rng := c.Rng("c15-layout", i)
		spec := DrawLayout(rng, 1+rng.IntN(5), opts)
		if rng.IntN(6) == 0 {
			injectConflict(rng, spec)
		}
		w := spec.World("c15")
		h := &History{World: w, Loc: rng.IntN(len(locNames))}
		h.Ops = append(h.Ops, c15Gen(rng, spec, w, true))
		if i < 3 {
			c.Stats.Sample(map[string]any{"layout_convs": spec.Convs, "user_pkgs": spec.UserPkgs, "ops": DescribeOps(h)}, 5)
		}
		c.Stats.Add("worlds", 1)
		return []*History{h}, nil
	}
	found, err := c.RunCases(nLayouts, mk, JudgeC15, onObs)
	if err != nil {
		return nil, err
	}
	// systematic layout coverage: every form combination in every way of naming the cwd
	covSpecs := CoverageSpecs()
	fcov, err := c.RunCases(len(covSpecs), func(i int) ([]*History, error) {
		rng := c.Rng("c15-coverage", i)
		spec := covSpecs[i]
		w := spec.World("c15cov")
		var hs []*History
		forms := []string{"", "abs", "rel", "abs-slash", "symlink", "sub:svc/conv", "chdir-symlink", "symlink-rel", "dotdot-symlink", "sublink:svc/conv"}
		if c.Tier != "thorough" {
			forms = []string{forms[i%len(forms)], forms[(i+3)%len(forms)]}
		}
		for _, cw := range forms {
			g := &GenSpec{Plan: planIdentity(), Spec: spec, Expect: "ok", Cwd: cw, Umask: []int{0, 0o027, 0o077}[rng.IntN(3)]}
			if strings.HasPrefix(cw, "sub:") || strings.HasPrefix(cw, "sublink:") {
				sp := spec.Clone()
				sp.CwdDir = strings.TrimPrefix(strings.TrimPrefix(cw, "sub:"), "sublink:")
				g.Spec = sp
			}
			hs = append(hs, &History{World: w, Loc: rng.IntN(len(locNames)), Ops: []Op{genOp(g)}})
		}
		if i%6 == 0 || len(spec.LineDirectives) > 0 || len(spec.Cgo) > 0 {
			// the user's environment carries build flags that make the go command hand out
			// instrumented copies of the sources (GOFLAGS=-cover)
			g := &GenSpec{Plan: planIdentity(), Spec: spec, Expect: "ok", Env: map[string]string{"GOFLAGS": "-cover"}}
			hs = append(hs, &History{World: w, Loc: rng.IntN(len(locNames)), Ops: []Op{genOp(g)}})
			c.Stats.Add("c15.env_goflags_cover", 1)
		}
		c.Stats.Add("worlds", 1)
		return hs, nil
	}, JudgeC15, onObs)
	if err != nil {
		return nil, err
	}
	found = append(found, fcov...)
	// @cwd/ paths that leave the invocation directory through '..' (goverter run inside a
	// package directory, as go:generate does)
	fup, err := c.RunCases(2, func(i int) ([]*History, error) {
		rng := c.Rng("c15-cwd-parent", i)
		spec := &LSpec{UserPkgs: map[string]string{"svc/shared": "sharedconv"}, PkgNames: map[string]string{"svc/conv": "conv"}, CwdDir: "svc/conv"}
		spec.Convs = []LConv{
			{Dir: "svc/conv", File: "conv.go", Kind: "interface", Name: "Up", Version: 1, OutFile: "@cwd/../shared/out.go"},
			{Dir: "svc/conv", File: "conv.go", Kind: "interface", Name: "Uq", Version: 1, OutFile: "@cwd/gen/plain.go", Format: "function"},
		}
		if i == 1 {
			spec.Convs[0].OutFile = "@cwd/../../top-up/out.go"
		}
		w := spec.World("c15up")
		var hs []*History
		for _, cw := range []string{"sub:svc/conv", "sublink:svc/conv"} {
			g := &GenSpec{Plan: planIdentity(), Spec: spec, Expect: "ok", Cwd: cw}
			hs = append(hs, &History{World: w, Loc: rng.IntN(len(locNames)), Ops: []Op{genOp(g)}})
		}
		c.Stats.Add("worlds", 1)
		return hs, nil
	}, JudgeC15, onObs)
	if err != nil {
		return nil, err
	}
	found = append(found, fup...)
	hmk := func(i int) ([]*History, error) {
		rng := c.Rng("c15-history", i)
		spec := DrawLayout(rng, 1+rng.IntN(4), LayoutOpts{CustomTags: true, Guarded: true, UserPkgs: true})
		w := spec.World("c15h")
		h := &History{World: w, Loc: rng.IntN(len(locNames))}
		cur := copyMap(w.Files)
		h.Ops = append(h.Ops, c15Gen(rng, spec, w, true))
		steps := 1 + rng.IntN(3)
		for s := 0; s < steps; s++ {
			spec = spec.Clone()
			switch rng.IntN(4) {
			case 0:
				spec = spec.Bump()
			case 1:
				k := rng.IntN(len(spec.Convs))
				if spec.Convs[k].Kind == "interface" {
					spec.Convs[k].OutFile = []string{"", "./moved/" + strings.ToLower(spec.Convs[k].Name) + ".go", "@cwd/moved/" + strings.ToLower(spec.Convs[k].Name) + ".go"}[rng.IntN(3)]
					spec.Convs[k].OutPkg = ""
					// keep shared-file agreement
					for j := range spec.Convs {
						if j != k && spec.Predict(&spec.Convs[j]).Path == spec.Predict(&spec.Convs[k]).Path {
							spec.Convs[k].OutPkg = spec.Convs[j].OutPkg
						}
					}
				}
			case 2:
				h.Ops = append(h.Ops, Op{Kind: "relocate", Label: "Relocate", N: rng.IntN(3)})
			case 3:
				h.Ops = append(h.Ops, Op{Kind: "corrupt", Label: "Corrupt", Content: corruptKinds[rng.IntN(len(corruptKinds))], N: rng.IntN(8), Path: fmt.Sprint(rng.IntN(1000))})
			}
			nw := spec.Render()
			h.Ops = append(h.Ops, editOps("EditLayout", cur, nw)...)
			cur = nw
			w2 := spec.World("c15h")
			op := c15Gen(rng, spec, w2, true)
			op.Gen.Canon = w2.Patterns
			if op.Gen.Patterns != nil {
				tmp := &World{Module: w.Module, Patterns: w2.Patterns}
				op.Gen.Patterns = patternVariants(rng, tmp, 1)[0]
			}
			h.Ops = append(h.Ops, op)
		}
		return []*History{h}, nil
	}
	f2, err := c.RunCases(nHist, hmk, JudgeC15, onObs)
	if err != nil {
		return nil, err
	}
	found = append(found, f2...)
	out, err := c.finish("C15", "exploration", found, JudgeC15, func(c *Ctx, f Found) string { return f.V.Class })
	if err != nil {
		return nil, err
	}
	out.Coverage = map[string]any{
		"rule": "layout worlds are drawn (1-5 converters over 1-3 packages; output:file default/relative/parent/@cwd/absolute/same-package; output:package absent/path/path:name/:name; pre-existing user packages at targets; shared files; injected same-file/different-package conflicts) and run in drawn cwd form, umask, location and map order, singly and in histories that move outputs, bump types, relocate the module and corrupt earlier outputs. Non-trivial = more than one converter, or a non-default cwd form/umask, or prior outputs present; distinct = distinct (per-converter setting forms, user packages, cwd form, umask, location, prior-output presence) tuples, counted",
	}
	return out, nil
}
