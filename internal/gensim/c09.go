package gensim

import (
	"fmt"
	"go/parser"
	"go/token"
	"math/rand/v2"
	"regexp"
	"sort"
	"strings"

	"verif/internal/rt/verifsim"
)

var headerRe = regexp.MustCompile(`^// Code generated .* DO NOT EDIT\.$`)

// effective build tags / constraint of a gen op (CLI defaults when unset).
func effTags(g *GenSpec, w *World) string {
	if g.BuildTags != nil {
		return *g.BuildTags
	}
	if w.BuildTags != nil {
		return *w.BuildTags
	}
	return "goverter"
}

func effConstraint(g *GenSpec, w *World) string {
	if g.OutputConstraint != nil {
		return *g.OutputConstraint
	}
	if w.OutputConstraint != nil {
		return *w.OutputConstraint
	}
	return "!goverter"
}

// headerIntact says whether content starts with the generated header and a build
// constraint line that the given build tags falsify (so the go tool ignores the file).
func headerIntact(content, tags string) bool {
	lines := strings.SplitN(content, "\n", 3)
	if len(lines) < 3 {
		return false
	}
	if !headerRe.MatchString(lines[0]) {
		return false
	}
	if !strings.HasPrefix(lines[1], "//go:build ") {
		return false
	}
	expr := strings.TrimSpace(strings.TrimPrefix(lines[1], "//go:build "))
	if !strings.HasPrefix(expr, "!") {
		return false
	}
	tag := strings.TrimPrefix(expr, "!")
	for _, t := range strings.Split(tags, ",") {
		if strings.TrimSpace(t) == tag {
			return true
		}
	}
	return false
}

// premiseHolds: every non-input .go file present before the op is header-intact under the
// op's build tags — or lives in a directory that the run does not select (DESIGN §4.4): a
// file torn inside its header carries no build constraint; inside a SELECTED package the go
// tool treats it as a user source (part of "the input"), anywhere else it is just a broken
// previous output and must not matter.
func premiseHolds(o *Obs, tags string, canon []string, module string) bool {
	sel, all := selectedDirs(canon, module)
	for p, c := range o.PriorOutputs {
		if !strings.HasSuffix(p, ".go") {
			continue
		}
		if headerIntact(c, tags) {
			continue
		}
		dir := ""
		if i := strings.LastIndex(p, "/"); i >= 0 {
			dir = p[:i]
		}
		if all || sel[dir] {
			return false
		}
		for d := range sel {
			// wildcard-free patterns select exact directories only
			_ = d
		}
	}
	return true
}

// selectedDirs maps canonical patterns to module-relative directories; all is true when a
// pattern selects subtrees (…/...).
func selectedDirs(canon []string, module string) (map[string]bool, bool) {
	sel := map[string]bool{}
	all := false
	for _, p := range canon {
		switch {
		case strings.Contains(p, "..."):
			all = true
		case p == "." || p == "./" || p == module:
			sel[""] = true
		case strings.HasPrefix(p, "./"):
			sel[strings.TrimSuffix(strings.TrimPrefix(p, "./"), "/")] = true
		case strings.HasPrefix(p, module+"/"):
			sel[strings.TrimPrefix(p, module+"/")] = true
		default:
			all = true // unknown pattern form: be conservative
		}
	}
	return sel, all
}

// produced returns the files the op wrote (seam log ∪ tree diff) with final content.
func produced(o *Obs) map[string]string {
	out := map[string]string{}
	for p, c := range o.Written {
		out[p] = c
	}
	for _, e := range o.DiskEvents() {
		if e.Op == "WriteFile" && e.Fault == "" {
			rel := strings.TrimPrefix(e.Path, "@root/")
			if c, ok := o.Outputs[rel]; ok {
				out[rel] = c
			} else if c, ok := o.Inputs[rel]; ok {
				_ = c // goverter overwrote an input path; report via Written
			}
		}
	}
	return out
}

func faultFree(g *GenSpec) bool { return len(g.Plan.Faults) == 0 }

// lacksPackageClause: some prior output keeps its two header lines (so the go tool must
// ignore it under the run's tags) but has no parsable package clause. This is the specific
// state of known finding F9: the go command's module index reports such a file as an error
// although it is excluded by its build constraint.
func lacksPackageClause(o *Obs, tags string) bool {
	for p, c := range o.PriorOutputs {
		if !strings.HasSuffix(p, ".go") || !headerIntact(c, tags) {
			continue
		}
		if _, err := parser.ParseFile(token.NewFileSet(), p, c, parser.PackageClauseOnly); err != nil {
			return true
		}
	}
	return false
}

// hasNulBody reports a prior output whose header is intact and whose remainder holds NUL bytes.
func hasNulBody(o *Obs, tags string) bool {
	for p, c := range o.PriorOutputs {
		if strings.HasSuffix(p, ".go") && headerIntact(c, tags) && strings.Contains(c, "\x00") {
			return true
		}
	}
	return false
}

// hasAbsoluteOutput reports a world with an absolute output:file setting (spelled through the
// real module root).
func hasAbsoluteOutput(w *World) bool {
	for _, c := range w.Files {
		if strings.Contains(c, "output:file "+RootPlaceholder) {
			return true
		}
	}
	for _, gl := range w.Globals {
		if strings.Contains(gl, RootPlaceholder) {
			return true
		}
	}
	return false
}

func firstDiff(a, b string) string {
	la, lb := strings.Split(a, "\n"), strings.Split(b, "\n")
	for i := 0; i < len(la) || i < len(lb); i++ {
		var x, y string
		if i < len(la) {
			x = la[i]
		}
		if i < len(lb) {
			y = lb[i]
		}
		if x != y {
			return fmt.Sprintf("line %d: got %q want %q", i+1, x, y)
		}
	}
	return "equal"
}

// JudgeC09: every fault-free gen whose premise holds equals the clean-tree reference.
func JudgeC09(c *Ctx, h *History, obs []*Obs) ([]Violation, error) {
	var out []Violation
	for _, o := range obs {
		g := h.Ops[o.OpIndex].Gen
		if g.Setup || !faultFree(g) || g.Argv != nil {
			continue
		}
		if o.TimedOut {
			return nil, &InfraError{Msg: "node timed out"}
		}
		tags := effTags(g, h.World)
		canon := g.Canon
		if canon == nil {
			canon = h.World.Patterns
		}
		visible := false
		if !premiseHolds(o, tags, canon, h.World.Module) {
			// the previous output is visible to the loader (part of "the input") — unless it
			// is exactly what this very run produces from a clean tree: repeating a run over
			// its own current output must not change anything (checked below, once the
			// reference is known)
			visible = true
		}
		globals := g.Globals
		if globals == nil {
			globals = h.World.Globals
		}
		ro := RefOpts{Globals: globals, BuildTags: g.BuildTags, OutputConstraint: g.OutputConstraint, Patterns: canon}
		if ro.BuildTags == nil {
			ro.BuildTags = h.World.BuildTags
		}
		if ro.OutputConstraint == nil {
			ro.OutputConstraint = h.World.OutputConstraint
		}
		ref, err := c.Ref(h.World.Module, o.Inputs, ro)
		if err != nil {
			return nil, err
		}
		if visible {
			current := ref.Exit == 0
			for p, pc := range o.PriorOutputs {
				if strings.HasSuffix(p, ".go") && !headerIntact(pc, tags) && ref.Written[p] != pc {
					current = false
				}
			}
			if !current {
				c.Stats.Add("c09.premise_excluded_gens", 1)
				continue
			}
			c.Stats.Add("c09.gens_over_visible_current_output", 1)
		}
		sfx := ""
		if g.FileAge != "fresh" && lacksPackageClause(o, tags) {
			// F9 needs the settled regime (go command reading through its module index);
			// in the fresh regime the same state must recover
			sfx = "/stale-output-without-package-clause"
			c.Stats.Add("c09.gens_over_output_without_package_clause", 1)
		}
		if hasNulBody(o, tags) {
			// known finding F20: go/build refuses files with NUL bytes whatever their constraint
			sfx = "/stale-output-with-nul-bytes"
		}
		if (g.Cwd == "symlink" || g.Cwd == "chdir-symlink" || g.Cwd == "symlink-rel" || g.Cwd == "dotdot-symlink") && hasAbsoluteOutput(h.World) {
			// known finding F11 (reported by C15 under the same name): an absolute output:file
			// spelled through another path than the symbolic link goverter works in
			sfx = "/absolute-output-file-spelled-through-other-path-than-cwd"
		}
		c.Stats.Add("c09.compared_gens", 1)
		if ref.Exit == 0 {
			c.Stats.Add("c09.compared_ok", 1)
		} else {
			c.Stats.Add("c09.compared_failing", 1)
		}
		if o.Exit != ref.Exit {
			out = append(out, Violation{Property: "C09", Class: "exit-differs" + sfx, OpIndex: o.OpIndex,
				Msg: fmt.Sprintf("exit %d, clean-tree reference exit %d; stderr=%q ref=%q", o.Exit, ref.Exit, trunc(o.Stderr, 300), trunc(ref.Stderr, 300))})
			continue
		}
		if o.Stderr != ref.Stderr {
			out = append(out, Violation{Property: "C09", Class: "diagnostic-differs" + sfx, OpIndex: o.OpIndex,
				Msg: "diagnostic differs from clean-tree reference: " + firstDiff(o.Stderr, ref.Stderr)})
			continue
		}
		if o.Stdout != ref.Stdout {
			out = append(out, Violation{Property: "C09", Class: "stdout-differs", OpIndex: o.OpIndex, Msg: firstDiff(o.Stdout, ref.Stdout)})
			continue
		}
		got, want := produced(o), produced(ref)
		var paths []string
		seen := map[string]bool{}
		for p := range got {
			seen[p] = true
			paths = append(paths, p)
		}
		for p := range want {
			if !seen[p] {
				paths = append(paths, p)
			}
		}
		sort.Strings(paths)
		for _, p := range paths {
			gc, gok := got[p]
			wc, wok := want[p]
			switch {
			case !gok:
				out = append(out, Violation{Property: "C09", Class: "output-differs" + sfx, OpIndex: o.OpIndex, Msg: "file " + p + " produced from a clean tree but not here"})
			case !wok:
				out = append(out, Violation{Property: "C09", Class: "output-differs" + sfx, OpIndex: o.OpIndex, Msg: "file " + p + " produced here but not from a clean tree"})
			case gc != wc:
				out = append(out, Violation{Property: "C09", Class: "output-differs" + sfx, OpIndex: o.OpIndex, Msg: "bytes of " + p + " differ from clean-tree reference: " + firstDiff(gc, wc)})
			}
			if len(out) > 0 {
				break
			}
		}
	}
	return out, nil
}

func trunc(s string, n int) string {
	if len(s) > n {
		return s[:n] + "…"
	}
	return s
}

// ---- plans and environment variants -----------------------------------------------------

func planIdentity() verifsim.Plan { return verifsim.Plan{Order: verifsim.OrderPlan{Mode: "identity"}} }

func planAll(mode string, k int, seed uint64) verifsim.Plan {
	return verifsim.Plan{Seed: seed, Order: verifsim.OrderPlan{Mode: mode, K: k}}
}

func withGo(p verifsim.Plan, mode string, seed uint64) verifsim.Plan {
	p.Goroutines = mode
	if seed != 0 {
		p.Seed = seed
	}
	return p
}

func planSite(site int, mode string, k int, seed uint64) verifsim.Plan {
	return verifsim.Plan{Seed: seed, Order: verifsim.OrderPlan{Mode: mode, K: k, Sites: []int{site}}}
}

// patternVariants returns pattern lists that differ only in what the property names: order
// and overlap (duplicates). The spelling of a pattern (./x vs its import path) is NOT varied:
// a pattern is a CLI option and goverter may echo it in a diagnostic (a thorough run showed
// "could not load package ./c2" vs "... <module>/c2" — a false alarm of an earlier version
// of this check, see DESIGN 13).
func patternVariants(rng *rand.Rand, w *World, n int) [][]string {
	var out [][]string
	base := w.Patterns
	for i := 0; i < n; i++ {
		p := append([]string(nil), base...)
		rng.Shuffle(len(p), func(a, b int) { p[a], p[b] = p[b], p[a] })
		if rng.IntN(2) == 0 && len(p) > 0 {
			d := p[rng.IntN(len(p))]
			at := rng.IntN(len(p) + 1)
			p = append(p[:at], append([]string{d}, p[at:]...)...)
		}
		out = append(out, p)
	}
	return out
}

// envVariant draws the environment of a gen op.
func envVariant(rng *rand.Rand, g *GenSpec, w *World) {
	g.Cwd = []string{"chdir", "abs", "rel", "chdir", "abs", "rel", "abs-slash", "symlink"}[rng.IntN(8)]
	g.Gomaxprocs = []int{0, 1, 4, 16}[rng.IntN(4)]
	g.CustomCLI = rng.IntN(5) == 0
	g.Patterns = patternVariants(rng, w, 1)[0]
	g.Plan.Clock = 1_600_000_000 + int64(rng.IntN(1_000_000))
	g.Plan.Pid = 1000 + rng.IntN(30000)
	if rng.IntN(3) == 0 {
		g.FileAge = "fresh"
	}
	if rng.IntN(2) == 0 {
		g.Env = map[string]string{
			"USER":     []string{"alice", "bob", "root"}[rng.IntN(3)],
			"LOGNAME":  []string{"alice", "bob"}[rng.IntN(2)],
			"LANG":     []string{"C", "en_US.UTF-8", "de_DE.UTF-8"}[rng.IntN(3)],
			"TZ":       []string{"UTC", "Asia/Tokyo", "America/New_York"}[rng.IntN(3)],
			"HOSTNAME": []string{"ci-runner-7", "laptop"}[rng.IntN(2)],
			"HOME":     []string{"/tmp", "/root", "/nonexistent-home"}[rng.IntN(3)],
			"CI":       []string{"", "true"}[rng.IntN(2)],
		}
	}
}

func genOp(g *GenSpec) Op { return Op{Kind: "gen", Gen: g} }

// C09Cases builds the single-gen cases for a world: systematic prefix, then seeded search.
// overlapVariants: pattern lists that select the same packages through overlapping or
// differently spelled patterns (./x and its import path; ./x/... and ./x). Used only when the
// reference run succeeds: a pattern is a CLI option and may be echoed by a loader diagnostic.
func overlapVariants(rng *rand.Rand, w *World) [][]string {
	var out [][]string
	base := w.Patterns
	if len(base) == 0 {
		return nil
	}
	for v := 0; v < 3; v++ {
		p := append([]string(nil), base...)
		i := rng.IntN(len(p))
		x := p[i]
		var extra string
		switch {
		case strings.HasPrefix(x, "./") && !strings.Contains(x, "...") && v%2 == 0:
			extra = w.Module + "/" + strings.TrimPrefix(x, "./")
		case strings.HasPrefix(x, w.Module+"/") && !strings.Contains(x, "..."):
			extra = "./" + strings.TrimPrefix(x, w.Module+"/")
		case strings.HasPrefix(x, "./") && !strings.Contains(x, "..."):
			// a subtree pattern that contains x; other packages below it would change the
			// selection, so only use it when no other selected or input package lives there
			sub := strings.TrimPrefix(x, "./") + "/"
			alone := true
			for f := range w.Files {
				if strings.HasPrefix(f, sub) && strings.Count(strings.TrimPrefix(f, sub), "/") > 0 {
					alone = false
				}
			}
			if !alone {
				continue
			}
			extra = x + "/..."
		default:
			continue
		}
		at := rng.IntN(len(p) + 1)
		p = append(p[:at], append([]string{extra}, p[at:]...)...)
		out = append(out, p)
	}
	return out
}

// recursiveFirstVariants (no draws): a directory x of the selection is named through the
// recursive pattern x/... and stands FIRST, followed by the other patterns, among them one
// whose spelling merely extends x as a string (./a/... then ./api/conv). Selects the same
// packages as the canonical list whenever nothing else lives below x.
func recursiveFirstVariants(w *World) [][]string {
	var out [][]string
	selected := map[string]bool{}
	for _, p := range w.Patterns {
		selected[p] = true
	}
	for _, x := range w.Patterns {
		if !strings.HasPrefix(x, "./") || strings.Contains(x, "...") {
			continue
		}
		sibling := false
		for _, y := range w.Patterns {
			if y != x && strings.HasPrefix(y, x) && !strings.HasPrefix(y, x+"/") {
				sibling = true
			}
		}
		if !sibling {
			continue
		}
		// every package directory below x must be selected anyway
		sub := strings.TrimPrefix(x, "./") + "/"
		same := true
		for f := range w.Files {
			if strings.HasPrefix(f, sub) && strings.HasSuffix(f, ".go") {
				if i := strings.LastIndex(f, "/"); !selected["./"+f[:i]] {
					same = false
				}
			}
		}
		if !same {
			continue
		}
		p := []string{x + "/..."}
		for _, y := range w.Patterns {
			if y != x && !strings.HasPrefix(y, x+"/") {
				p = append(p, y)
			}
		}
		out = append(out, p)
	}
	return out
}

func hasTag(w *World, t string) bool {
	for _, x := range w.Tags {
		if x == t {
			return true
		}
	}
	return false
}

func C09Cases(c *Ctx, w *World, rng *rand.Rand, reached []int, nRandom int) []*History {
	var hs []*History
	add := func(g *GenSpec, loc int) {
		hs = append(hs, &History{World: w, Loc: loc, Ops: []Op{genOp(g)}})
	}
	add(&GenSpec{Plan: planIdentity()}, 0)
	add(&GenSpec{Plan: planIdentity()}, 1) // repeat at another location
	// every way of naming the working directory, systematically
	for _, cw := range []string{"abs", "rel", "abs-slash", "symlink", "chdir-symlink", "symlink-rel", "dotdot-symlink"} {
		add(&GenSpec{Plan: planIdentity(), Cwd: cw}, 0)
	}
	add(&GenSpec{Plan: planAll("reverse", 0, 0)}, 0)
	add(&GenSpec{Plan: planAll("rotate", 1, 0)}, 0)
	// repeated runs whose previous (current) output is visible to the loader: constraint
	// configured empty, or no build tag
	for k := 0; k < 2 && hasTag(w, "compiles-with-outputs"); k++ {
		mk := func() Op {
			g := &GenSpec{Plan: planIdentity()}
			if k == 0 {
				g.OutputConstraint = strp("")
			} else {
				g.BuildTags = strp("")
			}
			return genOp(g)
		}
		hs = append(hs, &History{World: w, Loc: 0, Ops: []Op{mk(), mk(), mk()}})
	}
	for _, s := range reached {
		add(&GenSpec{Plan: planSite(s, "reverse", 0, 0)}, 0)
	}
	for i := 0; i < nRandom; i++ {
		g := &GenSpec{Plan: planAll("perm", 0, rng.Uint64())}
		envVariant(rng, g, w)
		add(g, rng.IntN(len(locNames)))
	}
	// goroutine schedules (R5) — only when the node contains go statements at all
	if c.Node.HasKind("go") {
		for i := 0; i < 3; i++ {
			g := &GenSpec{Plan: withGo(planIdentity(), "native", 0), Gomaxprocs: []int{1, 4, 16}[i]}
			add(g, 0)
		}
		for i := 0; i < 4; i++ {
			add(&GenSpec{Plan: withGo(planIdentity(), "deferred", rng.Uint64())}, 0)
		}
		add(&GenSpec{Plan: withGo(planAll("perm", 0, rng.Uint64()), "deferred", 0)}, 0)
	}
	if c.refOK(w) {
		for _, pv := range overlapVariants(rng, w) {
			add(&GenSpec{Plan: planIdentity(), Patterns: pv}, 0)
		}
		for _, pv := range recursiveFirstVariants(w) {
			add(&GenSpec{Plan: planIdentity(), Patterns: pv}, 0)
			c.Stats.Add("c09.recursive_first_pattern_variants", 1)
		}
	}
	// environment-only variants in identity order (isolates N3/N4 from N1)
	for i := 0; i < 3; i++ {
		g := &GenSpec{Plan: planIdentity()}
		envVariant(rng, g, w)
		add(g, rng.IntN(len(locNames)))
	}
	return hs
}
