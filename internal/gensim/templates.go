package gensim

import (
	"fmt"
	"math/rand/v2"
	"sort"
	"strings"
)

// Parametric worlds for the structures that make map order, pattern order and ties
// observable (DESIGN §4.4, templates T1–T8) — hand-written scenarios have at most one
// defect and no tie.

func names(rng *rand.Rand, prefix string, k int) []string {
	pool := []string{"Alpha", "Bravo", "Charlie", "Delta", "Echo", "Zulu", "Yankee", "Xray", "Mike", "Kilo", "Omega", "Beta"}
	rng.Shuffle(len(pool), func(i, j int) { pool[i], pool[j] = pool[j], pool[i] })
	out := make([]string, k)
	for i := range out {
		out[i] = prefix + pool[i%len(pool)]
		if i >= len(pool) {
			out[i] += fmt.Sprint(i)
		}
	}
	return out
}

func mod(p string) string { return DefaultModule + "/" + p }

// T1: k ≥ 2 non-existent target fields in ignore / map on one method.
func T1(rng *rand.Rand) *World {
	k := 2 + rng.IntN(4)
	ns := names(rng, "Nope", k)
	var lines string
	if rng.IntN(2) == 0 {
		lines = "    // goverter:ignore " + strings.Join(ns, " ") + "\n"
	} else {
		for _, n := range ns {
			if rng.IntN(2) == 0 {
				lines += "    // goverter:map A " + n + "\n"
			} else {
				lines += "    // goverter:ignore " + n + "\n"
			}
		}
	}
	src := `package t1

// goverter:converter
type Converter interface {
` + lines + `    Convert(source Input) Output
}

type Input struct{ A int }
type Output struct{ A int }
`
	return &World{Name: "T1", Module: DefaultModule, Files: map[string]string{"t1/c.go": src}, Patterns: []string{"./t1"}, Tags: []string{"T1", "multi-defect"}}
}

// T2: k ≥ 2 non-existent enum:map keys.
func T2(rng *rand.Rand) *World {
	k := 2 + rng.IntN(3)
	ns := names(rng, "No", k)
	var lines string
	for _, n := range ns {
		lines += "    // goverter:enum:map " + n + " OutA\n"
	}
	src := `package t2

// goverter:converter
// goverter:enum:unknown @error
type Converter interface {
    // goverter:enum:transform regex In(\w+) Out$1
` + lines + `    Convert(source In) (Out, error)
}

type In int
const (
	InA In = iota
	InB
)
type Out int
const (
	OutA Out = iota
	OutB
)
`
	return &World{Name: "T2", Module: DefaultModule, Files: map[string]string{"t2/c.go": src}, Patterns: []string{"./t2"}, Tags: []string{"T2", "multi-defect"}}
}

// T3: ≥ 2 methods with field settings on non-struct targets.
func T3(rng *rand.Rand) *World {
	shapes := []struct{ in, out string }{
		{"[]Input", "[]Output"}, {"map[string]Input", "map[string]Output"}, {"[]*Input", "[]*Output"}, {"[][]Input", "[][]Output"},
	}
	rng.Shuffle(len(shapes), func(i, j int) { shapes[i], shapes[j] = shapes[j], shapes[i] })
	k := 2 + rng.IntN(3)
	mn := names(rng, "Conv", k)
	var methods string
	for i := 0; i < k; i++ {
		methods += fmt.Sprintf("    // goverter:ignore A\n    %s(source %s) %s\n", mn[i], shapes[i%len(shapes)].in, shapes[i%len(shapes)].out)
	}
	src := `package t3

// goverter:converter
type Converter interface {
` + methods + `}

type Input struct{ A int }
type Output struct{ A int }
`
	return &World{Name: "T3", Module: DefaultModule, Files: map[string]string{"t3/c.go": src}, Patterns: []string{"./t3"}, Tags: []string{"T3", "multi-defect"}}
}

// T4: a variables block with ≥ 2 defective variables.
func T4(rng *rand.Rand) *World {
	k := 2 + rng.IntN(3)
	vn := names(rng, "Conv", k+1)
	var vars string
	for i := 0; i < k; i++ {
		switch rng.IntN(3) {
		case 0:
			vars += fmt.Sprintf("    // goverter:nosuchsetting%d\n    %s func(Input) Output\n", i, vn[i])
		case 1:
			vars += fmt.Sprintf("    // goverter:ignore Missing%d\n    %s func(Input) Output\n", i, vn[i])
		default:
			vars += fmt.Sprintf("    %s func(Input) Other%d\n", vn[i], i)
		}
	}
	vars += fmt.Sprintf("    %s func(Input) Output\n", vn[k])
	var others string
	for i := 0; i < k; i++ {
		others += fmt.Sprintf("type Other%d struct{ Z%d string }\n", i, i)
	}
	src := `package t4

// goverter:variables
var (
` + vars + `)

type Input struct{ A int }
type Output struct{ A int }
` + others
	return &World{Name: "T4", Module: DefaultModule, Files: map[string]string{"t4/c.go": src}, Patterns: []string{"./t4"}, Tags: []string{"T4", "multi-defect"}}
}

// T5: variables with equal (source,target) and incomparable context sets plus a caller
// that has both contexts (successful generation; output must not depend on order).
func T5(rng *rand.Rand) *World {
	vn := names(rng, "Conv", 3)
	src := fmt.Sprintf(`package t5

// goverter:variables
var (
    // goverter:context a
    %[1]s func(source Input, a CtxA) Output
    // goverter:context b
    %[2]s func(source Input, b CtxB) Output
    // goverter:context a
    // goverter:context b
    %[3]s func(source []Input, a CtxA, b CtxB) []Output
)

type CtxA struct{ X int }
type CtxB struct{ Y int }
type Input struct{ A int }
type Output struct{ A int }
`, vn[0], vn[1], vn[2])
	return &World{Name: "T5", Module: DefaultModule, Files: map[string]string{"t5/c.go": src}, Patterns: []string{"./t5"}, Tags: []string{"T5", "tie"}}
}

// T6: defects in ≥ 2 packages (order of patterns / packages must not pick the diagnostic).
func T6(rng *rand.Rand) *World {
	k := 2 + rng.IntN(2)
	pk := names(rng, "p", k)
	files := map[string]string{}
	var pats []string
	for i := 0; i < k; i++ {
		p := strings.ToLower(pk[i])
		var body string
		switch rng.IntN(3) {
		case 0:
			body = "// goverter:converter\n// goverter:bogus" + fmt.Sprint(i) + "\ntype Converter interface {\n    Convert(source Input) Output\n}\n"
		case 1:
			body = "// goverter:converter\ntype Converter interface {\n    Convert(source Input) Wrong\n}\ntype Wrong struct{ Q string }\n"
		default:
			body = "// goverter:converter\ntype Converter interface {\n    // goverter:ignore Missing\n    Convert(source Input) Output\n}\n"
		}
		files[p+"/c.go"] = "package " + p + "\n\n" + body + "\ntype Input struct{ A int }\ntype Output struct{ A int }\n"
		pats = append(pats, "./"+p)
	}
	sort.Strings(pats)
	return &World{Name: "T6", Module: DefaultModule, Files: files, Patterns: pats, Tags: []string{"T6", "multi-defect", "multi-package"}}
}

// T7: converters of equal name in different packages routed into one file.
func T7(rng *rand.Rand) *World {
	k := 2 + rng.IntN(2)
	pk := names(rng, "q", k)
	files := map[string]string{}
	var pats []string
	for i := 0; i < k; i++ {
		p := strings.ToLower(pk[i])
		files[p+"/c.go"] = fmt.Sprintf(`package %[1]s

// goverter:converter
// goverter:output:file @cwd/out/gen.go
// goverter:output:package %[2]s/out
type Converter interface {
    Convert%[3]d(source Input) Output
}

type Input struct{ A int }
type Output struct{ A int }
`, p, DefaultModule, i)
		pats = append(pats, "./"+p)
	}
	sort.Strings(pats)
	return &World{Name: "T7", Module: DefaultModule, Files: files, Patterns: pats, Tags: []string{"T7", "tie", "multi-package"}}
}

// T8: several healthy converters in several packages, several per file, enums, extend
// regex, struct comments — a successful world with many ≥2-entry maps (exposes removed sorts).
func T8(rng *rand.Rand) *World {
	files := map[string]string{}
	np := 2 + rng.IntN(2)
	pk := names(rng, "m", np)
	var pats []string
	for i := 0; i < np; i++ {
		p := strings.ToLower(pk[i])
		nm := 2 + rng.IntN(3)
		var methods, types string
		for m := 0; m < nm; m++ {
			methods += fmt.Sprintf("    Conv%d(source In%d) Out%d\n", m, m, m)
			types += fmt.Sprintf("type In%[1]d struct{ A int; B string; C []Sub%[1]d; E Color }\ntype Out%[1]d struct{ A int; B string; C []SubO%[1]d; E Paint }\ntype Sub%[1]d struct{ V int }\ntype SubO%[1]d struct{ V int }\n", m)
		}
		outfile := ""
		if rng.IntN(2) == 0 {
			outfile = "// goverter:output:file @cwd/shared/gen.go\n// goverter:output:package " + DefaultModule + "/shared\n// goverter:name Impl" + strings.Title(p) + "\n"
		}
		files[p+"/c.go"] = fmt.Sprintf(`package %s

// goverter:converter
// goverter:extend Ext.*
// goverter:struct:comment first
// goverter:struct:comment second
// goverter:enum:unknown @panic
%stype Converter interface {
%s}

func ExtA(s string) int64 { return 0 }
func ExtB(s int64) string { return "" }

type Color int
const (
	Red Color = iota
	Green
	Blue
)
type Paint int
const (
	PaintRed Paint = iota
	PaintGreen
	PaintBlue
)
%s`, p, outfile, methods, types)
		// enum names differ by prefix: add a transformer so generation succeeds
		files[p+"/c.go"] = strings.Replace(files[p+"/c.go"], "type Converter interface {\n", "type Converter interface {\n    // goverter:enum:transform regex (.*) Paint$1\n    ConvColor(source Color) Paint\n", 1)
		pats = append(pats, "./"+p)
	}
	sort.Strings(pats)
	return &World{Name: "T8", Module: DefaultModule, Files: files, Patterns: pats, Tags: []string{"T8", "healthy", "multi-package"}}
}

// T9: an explicit method whose name equals the name goverter would give a generated
// sub-method (sort ties by Name in getGenMethods).
func T9(rng *rand.Rand) *World {
	src := `package t9

// goverter:converter
type Converter interface {
    Convert(source []Input) []Output
    T9InputToT9Output(source Other) OtherOut
}

type Input struct{ A int; N Nested }
type Output struct{ A int; N NestedOut }
type Nested struct{ V int }
type NestedOut struct{ V int }
type Other struct{ B string }
type OtherOut struct{ B string }
`
	return &World{Name: "T9", Module: DefaultModule, Files: map[string]string{"t9/c.go": src}, Patterns: []string{"./t9"}, Tags: []string{"T9", "tie"}}
}

// T10: context ambiguity diagnostics with several hits / several missing contexts, and
// unknown-context debug lines (method/index.go satisfiedError, AvailableContextDebug).
func T10(rng *rand.Rand) *World {
	src := `package t10

// goverter:converter
// goverter:extend ExtA ExtB
type Converter interface {
    // goverter:context c
    // goverter:context f
    Convert(source Input, c CtxC, f CtxF) Output
}
type CtxF struct{ X int }

// goverter:context a
// goverter:context b
func ExtA(s Sub, a CtxA, b CtxB) SubOut { return SubOut{} }

// goverter:context d
// goverter:context e
func ExtB(s Sub, d CtxD, e CtxE) SubOut { return SubOut{} }

type CtxA struct{ X int }
type CtxB struct{ X int }
type CtxC struct{ X int }
type CtxD struct{ X int }
type CtxE struct{ X int }
type Input struct{ S Sub }
type Output struct{ S SubOut }
type Sub struct{ V int }
type SubOut struct{ V int }
`
	return &World{Name: "T10", Module: DefaultModule, Files: map[string]string{"t10/c.go": src}, Patterns: []string{"./t10"}, Tags: []string{"T10", "multi-defect"}}
}

// T11: packages of equal name in different directories converted in both directions, and
// several instantiations of one generic type: the generated sub-methods collide on their base
// name (<src>To<Target>) and get numeric suffixes in the order they are built — a successful
// world whose bytes depend on build order.
func T11(rng *rand.Rand) *World {
	nested := names(rng, "N", 2+rng.IntN(2))
	var fields, types string
	for _, n := range nested {
		fields += fmt.Sprintf("\t%s %s\n", n, n)
		types += fmt.Sprintf("type %s struct{ V int; W []string }\n", n)
	}
	model := func(dir string) string {
		return "package model\n\ntype Customer struct {\n\tName string\n" + fields + "\tOrders []Order\n}\ntype Order struct{ ID int; Tags map[string]string }\n" + types +
			"type Page[T any] struct{ Items []T; Next *Page[T] }\n"
	}
	conv := fmt.Sprintf(`package conv

import (
	api "%[1]s/t11/api/model"
	db "%[1]s/t11/db/model"
)

// goverter:converter
type Converter interface {
	ToAPI(source db.Customer) api.Customer
	ToDB(source api.Customer) db.Customer
	ToAPIs(source []db.Customer) []api.Customer
	PageToAPI(source db.Page[db.Order]) api.Page[api.Order]
	PageToDB(source api.Page[api.Order]) db.Page[db.Order]
	PageCustomers(source db.Page[db.Customer]) api.Page[api.Customer]
}
`, DefaultModule)
	return &World{Name: "T11", Module: DefaultModule, Files: map[string]string{
		"go.mod": "module " + DefaultModule + "\ngo 1.21\n",
		"t11/api/model/m.go": model("api"), "t11/db/model/m.go": model("db"), "t11/conv/c.go": conv},
		Patterns: []string{"./t11/conv"}, Tags: []string{"T11", "healthy", "name-collision"}}
}

// T12: an extend function that needs several contexts is reached from a generated
// sub-method (nested named struct below the declared method that owns the contexts): the
// sub-method receives the missing context parameters in the order they are requested.
func T12(rng *rand.Rand) *World {
	ctx := names(rng, "Ctx", 3)
	src := fmt.Sprintf(`package t12

// goverter:converter
// goverter:extend ExtLeaf
type Converter interface {
	// goverter:context a
	// goverter:context b
	// goverter:context c
	Convert(source In, a %[1]s, b %[2]s, c %[3]s) Out
}

// goverter:context a
// goverter:context b
// goverter:context c
func ExtLeaf(s Leaf, a %[1]s, b %[2]s, c %[3]s) LeafOut { return LeafOut{} }

type %[1]s struct{ X int }
type %[2]s struct{ Y int }
type %[3]s struct{ Z int }
type In struct{ N Nested; L []Nested }
type Out struct{ N NestedOut; L []NestedOut }
type Nested struct{ Deep Deeper }
type NestedOut struct{ Deep DeeperOut }
type Deeper struct{ V Leaf }
type DeeperOut struct{ V LeafOut }
type Leaf struct{ A int }
type LeafOut struct{ A int }
`, ctx[0], ctx[1], ctx[2])
	return &World{Name: "T12", Module: DefaultModule, Files: map[string]string{"t12/c.go": src}, Patterns: []string{"./t12"}, Tags: []string{"T12", "healthy", "contexts"}}
}

// T13: a regex extend that matches several functions of the same signature (the last match in
// name order wins), plus — in the failing variant — one match that returns an error although
// the converter method does not: which function is called / which diagnostic is printed must
// not follow the order in which the package scope is walked.
func T13(rng *rand.Rand) *World {
	fn := names(rng, "Parse", 4)
	failing := rng.IntN(2) == 0
	var funcs string
	for i, n := range fn {
		if failing && i == 1 {
			funcs += fmt.Sprintf("func %s(s string) (int, error) { return len(s) + %d, nil }\n", n, i)
		} else {
			funcs += fmt.Sprintf("func %s(s string) int { return len(s) + %d }\n", n, i)
		}
	}
	src := fmt.Sprintf(`package t13

// goverter:converter
// goverter:extend Parse.*
type Converter interface {
	Convert(source In) Out
}

%s
type In struct{ A string; B []string }
type Out struct{ A int; B []int }
`, funcs)
	tags := []string{"T13", "regex-extend"}
	if !failing {
		tags = append(tags, "healthy")
	}
	return &World{Name: "T13", Module: DefaultModule, Files: map[string]string{"t13/c.go": src}, Patterns: []string{"./t13"}, Tags: tags}
}

// T14: an explicitly declared method that is named like the helper goverter generates for the
// same pair of types: two methods of one name exist, their order in the output must not vary.
func T14(rng *rand.Rand) *World {
	src := `package t14

// goverter:converter
// goverter:output:file ./conv.gen.go
// goverter:output:package github.com/jmattheis/goverter/execution/t14
type Converter interface {
	Convert(source Outer) OuterOut
	// the name goverter gives the generated helper for Input -> Output, taken for a
	// hand-declared pointer variant: two methods of one name
	t14InputToT14Output(source *Input) *Output
	T14LeafToT14LeafOut(source Leaf) LeafOut
}

type Outer struct{ A Input; B []Input; C map[string]Leaf }
type OuterOut struct{ A Output; B []Output; C map[string]LeafOut }
type Input struct{ V Leaf }
type Output struct{ V LeafOut }
type Leaf struct{ X int }
type LeafOut struct{ X int }
`
	return &World{Name: "T14", Module: DefaultModule, Files: map[string]string{"t14/c.go": src}, Patterns: []string{"./t14"}, Tags: []string{"T14", "helper-name-clash"}}
}

// T15: extend functions in packages that import each other (an import cycle, a user error):
// the diagnostic must not depend on the order in which goverter names the packages to load.
func T15(rng *rand.Rand) *World {
	pk := names(rng, "x", 3)
	files := map[string]string{}
	var ext []string
	for i, p := range pk {
		next := pk[(i+1)%len(pk)]
		files["t15/"+p+"/f.go"] = fmt.Sprintf("package %s\n\nimport %q\n\nvar _ = %s.Marker\n\nconst Marker = %d\n\nfunc Conv%d(s string) int { return len(s) }\n", p, DefaultModule+"/t15/"+next, next, i, i)
		ext = append(ext, fmt.Sprintf("// goverter:extend %s/t15/%s:Conv%d", DefaultModule, p, i))
	}
	src := fmt.Sprintf(`package t15

// goverter:converter
%s
type Converter interface {
	Convert(source In) Out
}

type In struct{ A string }
type Out struct{ A int }
`, strings.Join(ext, "\n"))
	files["t15/c.go"] = src
	return &World{Name: "T15", Module: DefaultModule, Files: files, Patterns: []string{"./t15"}, Tags: []string{"T15", "extend-import-cycle", "failing"}}
}

// T16: the selected packages import each other (an import cycle): the diagnostic must not
// depend on the order of the patterns.
func T16(rng *rand.Rand) *World {
	pk := names(rng, "y", 2+rng.IntN(2))
	files := map[string]string{}
	var pats []string
	for i, p := range pk {
		next := pk[(i+1)%len(pk)]
		files["t16/"+p+"/c.go"] = fmt.Sprintf(`package %s

import %q

var _ = %s.Marker

const Marker = %d

// goverter:converter
type Converter interface {
	Convert(source In) Out
}

type In struct{ A string }
type Out struct{ A string }
`, p, DefaultModule+"/t16/"+next, next, i)
		pats = append(pats, "./t16/"+p)
	}
	return &World{Name: "T16", Module: DefaultModule, Files: files, Patterns: pats, Tags: []string{"T16", "pattern-import-cycle", "failing"}}
}

// T17: enums under matchIgnoreCase where a source member has no equally spelled target member
// but several that differ in capitalisation only. Today goverter refuses this (deterministic
// diagnostic); should it ever resolve such members, the choice must not follow map order.
func T17(rng *rand.Rand) *World {
	src := `package t17

// goverter:converter
// goverter:matchIgnoreCase
// goverter:enum:unknown @error
type Converter interface {
	Convert(source Status) (Level, error)
	ConvertAll(source Holder) (HolderOut, error)
}

type Holder struct{ S Status; L []Status }
type HolderOut struct{ S Level; L []Level }

type Status int

const (
	StatusOk Status = iota
	StatusFailed
	StatusPending
)

type Level int

const (
	STATUSOK Level = iota
	StatusOK
	Statusok
	STATUSFAILED
	STATUSPENDING
	StatusPENDING
)
`
	return &World{Name: "T17", Module: DefaultModule, Files: map[string]string{"t17/c.go": src}, Patterns: []string{"./t17"}, Tags: []string{"T17", "enum-ignore-case"}}
}

// T18: several goverter:autoMap sources of the same depth that all provide one target field:
// the ambiguity diagnostic (candidate list and suggested goverter:map line) must not follow the
// order in which the sources are collected.
func T18(rng *rand.Rand) *World {
	subs := names(rng, "Part", 3+rng.IntN(3))
	var auto, fields, types string
	for _, n := range subs {
		auto += "    // goverter:autoMap " + n + "\n"
		fields += "    " + n + " " + n + "T\n"
		types += "type " + n + "T struct{ Street string; Zip string }\n"
	}
	src := fmt.Sprintf(`package t18

// goverter:converter
type Converter interface {
%s    Convert(source In) Out
}

type In struct {
%s}
type Out struct{ Street string }
%s`, auto, fields, types)
	return &World{Name: "T18", Module: DefaultModule, Files: map[string]string{"t18/c.go": src}, Patterns: []string{"./t18"}, Tags: []string{"T18", "automap-ambiguity", "failing"}}
}

// Templates lists all template constructors.
var Templates = []func(*rand.Rand) *World{T1, T2, T3, T4, T5, T6, T7, T8, T9, T10, T11, T12, T13, T14, T15, T16, T17, T18}

// Combine merges several worlds into one module by prefixing their package directories.
// Import paths inside the sources are rewritten accordingly.
func Combine(ws []*World, name string) *World {
	out := &World{Name: name, Module: DefaultModule, Files: map[string]string{}, Tags: []string{"combined"}}
	for i, w := range ws {
		prefix := fmt.Sprintf("c%d", i)
		for p, c := range w.Files {
			nc := strings.ReplaceAll(c, w.Module+"/", w.Module+"/"+prefix+"/")
			nc = strings.ReplaceAll(nc, `"`+w.Module+`"`, `"`+w.Module+"/"+prefix+`"`)
			out.Files[prefix+"/"+p] = nc
		}
		for _, pat := range w.Patterns {
			switch {
			case pat == w.Module:
				out.Patterns = append(out.Patterns, "./"+prefix)
			case strings.HasPrefix(pat, w.Module+"/"):
				out.Patterns = append(out.Patterns, "./"+prefix+"/"+strings.TrimPrefix(pat, w.Module+"/"))
			case strings.HasPrefix(pat, "./"):
				out.Patterns = append(out.Patterns, "./"+prefix+"/"+strings.TrimPrefix(pat, "./"))
			default:
				out.Patterns = append(out.Patterns, pat)
			}
		}
		out.Globals = append(out.Globals, w.Globals...)
	}
	return out
}
