package gensim

import (
	"fmt"
	"go/build/constraint"
	"sort"
	"strings"
)

// complementary: the output constraint is exactly the negation of one of the build tags
// goverter loads packages with.
func complementary(tags, constraint string) bool {
	if !strings.HasPrefix(constraint, "!") {
		return false
	}
	t := strings.TrimPrefix(constraint, "!")
	for _, x := range strings.Split(tags, ",") {
		if strings.TrimSpace(x) == t && t != "" {
			return true
		}
	}
	return false
}

// sameConstraint: the emitted //go:build line carries the configured constraint — equal text,
// or equal after the canonical formatting gofmt applies to constraint lines (it adds
// parentheses: `a && b || c` is printed as `(a && b) || c`).
func sameConstraint(line, want string) bool {
	if line == want {
		return true
	}
	if !strings.HasPrefix(line, "//go:build ") {
		return false
	}
	a, errA := constraint.Parse(line)
	b, errB := constraint.Parse(want)
	return errA == nil && errB == nil && a.String() == b.String()
}

// headerViolation checks the first lines of one emitted file.
func headerViolation(path, content, constraint string) string {
	lines := strings.Split(content, "\n")
	if len(lines) == 0 || !headerRe.MatchString(lines[0]) {
		first := ""
		if len(lines) > 0 {
			first = lines[0]
		}
		return fmt.Sprintf("%s does not start with the 'Code generated ... DO NOT EDIT.' header: first line %q", path, first)
	}
	if constraint != "" {
		if len(lines) < 2 || !sameConstraint(lines[1], "//go:build "+constraint) {
			second := ""
			if len(lines) > 1 {
				second = lines[1]
			}
			return fmt.Sprintf("%s: line 2 is %q, want %q", path, second, "//go:build "+constraint)
		}
		// the constraint must be effective: followed by a blank line, before the package clause
		if len(lines) < 3 || strings.TrimSpace(lines[2]) != "" {
			return fmt.Sprintf("%s: the //go:build line is not followed by a blank line (it would not be honoured)", path)
		}
		return ""
	}
	for _, l := range lines {
		if strings.HasPrefix(l, "package ") {
			break
		}
		if strings.HasPrefix(l, "//go:build") || strings.HasPrefix(l, "// +build") {
			return fmt.Sprintf("%s: constraint configured empty but the file carries %q", path, l)
		}
	}
	return ""
}

// JudgeC16: constraint header on every emitted file; stale output never blocks regeneration.
func JudgeC16(c *Ctx, h *History, obs []*Obs) ([]Violation, error) {
	var out []Violation
	for _, o := range obs {
		g := h.Ops[o.OpIndex].Gen
		if g.Setup || g.Argv != nil {
			continue
		}
		if o.TimedOut {
			return nil, &InfraError{Msg: "node timed out"}
		}
		tags, constraint := effTags(g, h.World), effConstraint(g, h.World)
		// header oracle: every file the run wrote completely (fault-free successful run)
		if faultFree(g) && o.Exit == 0 {
			prod := produced(o)
			var ps []string
			for p := range prod {
				ps = append(ps, p)
			}
			sort.Strings(ps)
			for _, p := range ps {
				if !strings.HasSuffix(p, ".go") {
					continue
				}
				c.Stats.Add("c16.headers_checked", 1)
				if msg := headerViolation(p, prod[p], constraint); msg != "" {
					out = append(out, Violation{Property: "C16", Class: "header", OpIndex: o.OpIndex, Msg: msg})
					break
				}
			}
			if len(out) > 0 {
				continue
			}
		}
		if !faultFree(g) || g.Expect == "fail" {
			continue
		}
		if !complementary(tags, constraint) {
			c.Stats.Add("c16.non_complementary_gens", 1)
			continue
		}
		pcanon := g.Canon
		if pcanon == nil {
			pcanon = h.World.Patterns
		}
		if !premiseHolds(o, tags, pcanon, h.World.Module) {
			c.Stats.Add("c16.torn_header_states", 1)
			if o.Exit != 0 {
				c.Stats.Add("c16.torn_header_blocked_regeneration", 1)
			}
			continue
		}
		canon := g.Canon
		if canon == nil {
			canon = h.World.Patterns
		}
		globals := g.Globals
		if globals == nil {
			globals = h.World.Globals
		}
		ro := RefOpts{Globals: globals, BuildTags: g.BuildTags, OutputConstraint: g.OutputConstraint, Patterns: canon}
		if ro.BuildTags == nil {
			ro.BuildTags = h.World.BuildTags
		}
		if ro.OutputConstraint == nil {
			ro.OutputConstraint = h.World.OutputConstraint
		}
		// validity of the inputs: from the spec when the history has one (independent of
		// goverter), else from the clean-tree reference
		sfx := ""
		if g.FileAge != "fresh" && lacksPackageClause(o, tags) {
			// F9 needs the settled regime (go command reading through its module index);
			// in the fresh regime the same state must recover
			sfx = "/stale-output-without-package-clause"
			c.Stats.Add("c16.gens_over_output_without_package_clause", 1)
		}
		if hasNulBody(o, tags) {
			// known finding F20: go/build refuses files with NUL bytes whatever their constraint
			sfx = "/stale-output-with-nul-bytes"
		}
		if g.Expect == "ok" && o.Exit != 0 {
			c.Stats.Add("c16.recoveries_checked", 1)
			out = append(out, Violation{Property: "C16", Class: "regeneration-blocked" + sfx, OpIndex: o.OpIndex,
				Msg: fmt.Sprintf("inputs are valid by construction, tags %q / constraint %q are complementary and every prior output (%d present) is absent, header-intact or outside the selected packages, but generation exits %d: %s", tags, constraint, len(o.PriorOutputs), o.Exit, trunc(o.Stderr, 400))})
			continue
		}
		if g.Expect == "ok" && g.Spec != nil {
			// independent of goverter: every healthy converter of the spec must have been
			// (re)generated into its predicted file
			prod := produced(o)
			missing := ""
			for i := range g.Spec.Convs {
				p := g.Spec.Predict(&g.Spec.Convs[i]).Path
				if _, ok := prod[p]; !ok {
					missing = fmt.Sprintf("converter %s (declared in %s, guarded declaration=%v) was not generated into %s although the run exited 0", g.Spec.Convs[i].Name, g.Spec.Convs[i].Dir, g.Spec.Convs[i].GuardedDecl, p)
					break
				}
			}
			if missing != "" {
				out = append(out, Violation{Property: "C16", Class: "not-regenerated", OpIndex: o.OpIndex, Msg: missing})
				continue
			}
		}
		ref, err := c.Ref(h.World.Module, o.Inputs, ro)
		if err != nil {
			return nil, err
		}
		if ref.Exit != 0 {
			c.Stats.Add("c16.invalid_input_gens", 1)
			continue
		}
		prior := len(o.PriorOutputs) > 0
		if prior {
			c.Stats.Add("c16.recoveries_checked", 1)
			for p, content := range o.PriorOutputs {
				if !strings.HasSuffix(p, ".go") {
					continue
				}
				switch want, ok := ref.Written[p]; {
				case !ok:
					c.Stats.Add("c16.prior_state_orphan", 1)
				case want == content:
					c.Stats.Add("c16.prior_state_current", 1)
				default:
					c.Stats.Add("c16.prior_state_outdated_or_broken", 1)
				}
			}
		} else {
			c.Stats.Add("c16.clean_gens_checked", 1)
		}
		if o.Exit != 0 {
			out = append(out, Violation{Property: "C16", Class: "regeneration-blocked" + sfx, OpIndex: o.OpIndex,
				Msg: fmt.Sprintf("inputs are valid, tags %q / constraint %q are complementary and every prior output is absent, header-intact or outside the selected packages, but regeneration exits %d: %s", tags, constraint, o.Exit, trunc(o.Stderr, 400))})
			continue
		}
		got, want := produced(o), produced(ref)
		var paths []string
		for p := range want {
			paths = append(paths, p)
		}
		for p := range got {
			if _, ok := want[p]; !ok {
				paths = append(paths, p)
			}
		}
		sort.Strings(paths)
		for _, p := range paths {
			gc, gok := got[p]
			wc, wok := want[p]
			if !gok || !wok || gc != wc {
				msg := "regenerated " + p + " differs from generating from a clean tree"
				if gok && wok {
					msg += ": " + firstDiff(gc, wc)
				}
				out = append(out, Violation{Property: "C16", Class: "regeneration-differs", OpIndex: o.OpIndex, Msg: msg})
				break
			}
		}
	}
	if len(out) > 1 {
		out = out[:1]
	}
	return out, nil
}

// CheckC16 runs the C16 exploration.
func CheckC16(c *Ctx) (*Outcome, error) {
	nHist, nTorn, nHeader := 110, 30, 40
	if c.Tier == "thorough" {
		nHist, nTorn, nHeader = 2400, 400, 300
	}
	note := c.noteObs("c16")
	lopts := LayoutOpts{CustomTags: true, Guarded: true, UserPkgs: true, GuardedUser: true}
	// (1) recovery histories with intact headers
	mk := func(i int) ([]*History, error) {
		rng := c.Rng("c16-history", i)
		h := DrawHistory(c, rng, HistoryOpts{MaxSteps: 4, Faults: true, Corrupt: true, Relocate: true, EnvVariants: true, RandomOrder: true, Layout: lopts, OnlyLayout: rng.IntN(5) != 0, TornHeader: rng.IntN(2) == 0})
		if i < 3 {
			c.Stats.Sample(map[string]any{"history_ops": DescribeOps(h), "tags": h.World.BuildTags, "constraint": h.World.OutputConstraint}, 8)
		}
		c.Stats.Add("worlds", 1)
		return []*History{h}, nil
	}
	found, err := c.RunCases(nHist, mk, JudgeC16, note)
	if err != nil {
		return nil, err
	}
	// (2) histories that may tear the header (observations, not violations)
	mk2 := func(i int) ([]*History, error) {
		rng := c.Rng("c16-torn", i)
		h := DrawHistory(c, rng, HistoryOpts{MaxSteps: 3, Faults: true, Corrupt: true, EnvVariants: false, RandomOrder: false, Layout: lopts, OnlyLayout: true, TornHeader: true})
		c.Stats.Add("worlds", 1)
		return []*History{h}, nil
	}
	f2, err := c.RunCases(nTorn, mk2, JudgeC16, note)
	if err != nil {
		return nil, err
	}
	found = append(found, f2...)
	// (3) header oracle under explicit constraint settings, incl. non-complementary pairs
	mk3 := func(i int) ([]*History, error) {
		rng := c.Rng("c16-header", i)
		spec := DrawLayout(rng, 1+rng.IntN(3), LayoutOpts{UserPkgs: true, Symlinks: true})
		w := spec.World("c16hdr")
		g := &GenSpec{Plan: planIdentity(), Spec: spec, Expect: "ok"}
		switch rng.IntN(10) {
		case 5:
			g.OutputConstraint = strp("linux && !goverter")
		case 6:
			g.OutputConstraint = strp("go1.18 && !goverter")
		case 7:
			g.BuildTags, g.OutputConstraint = strp("gen"), strp("unix && !gen")
		case 8:
			g.OutputConstraint = strp("(linux || darwin) && !goverter")
		case 9:
			g.OutputConstraint = strp("!goverter && !ignore || build_all")
		case 0:
			g.OutputConstraint = strp("")
		case 1:
			g.BuildTags = strp("")
		case 2:
			g.BuildTags, g.OutputConstraint = strp("foo"), strp("!foo")
		case 3:
			g.BuildTags, g.OutputConstraint = strp("foo,bar"), strp("!bar")
		case 4:
			g.OutputConstraint = strp("!goverter && !ignore")
		}
		envVariant(rng, g, w)
		c.Stats.Add("worlds", 1)
		return []*History{{World: w, Loc: rng.IntN(len(locNames)), Ops: []Op{genOp(g)}}}, nil
	}
	f3, err := c.RunCases(nHeader, mk3, JudgeC16, note)
	if err != nil {
		return nil, err
	}
	found = append(found, f3...)
	nCrash, nEnum, nDrop := 12, 5, 8
	if c.Tier == "thorough" {
		nCrash, nEnum, nDrop = 90, 60, 60
	}
	fe, err := c.RunCases(nEnum, func(i int) ([]*History, error) {
		rng := c.Rng("c16-corrupt-every-output", i)
		hs := CorruptEveryOutput(rng, LayoutOpts{UserPkgs: true, Guarded: true, CustomTags: i%2 == 1}, 3)
		if i%3 == 2 || (c.Tier != "thorough" && i == 1) {
			// the same enumeration through a customised CLI (cli.Run with enum transformers)
			for _, h := range hs {
				for k := range h.Ops {
					if h.Ops[k].Gen != nil && !h.Ops[k].Gen.Orig {
						h.Ops[k].Gen.CustomCLI = true
					}
				}
			}
			c.Stats.Add("c16.custom_cli_histories", int64(len(hs)))
		}
		if i%5 == 3 {
			// the same enumeration with build tags in the environment of the go command
			// (GOFLAGS=-tags=...): tags whose names merely CONTAIN goverter's build tag. The
			// -tags flag goverter passes replaces them; the complementary tag must still be in
			// force for both loads.
			for _, h := range hs {
				for k := range h.Ops {
					if g := h.Ops[k].Gen; g != nil {
						tags := "goverter"
						if h.World.BuildTags != nil {
							tags = *h.World.BuildTags
						}
						if g.BuildTags != nil {
							tags = *g.BuildTags
						}
						if tags == "" {
							continue
						}
						var hostile []string
						for _, t := range strings.Split(tags, ",") {
							hostile = append(hostile, "net"+strings.TrimSpace(t)+"_dev")
						}
						if g.Env == nil {
							g.Env = map[string]string{}
						}
						g.Env["GOFLAGS"] = "-tags=" + strings.Join(hostile, ",")
					}
				}
			}
			c.Stats.Add("c16.goflags_tags_histories", int64(len(hs)))
		}
		c.Stats.Add("c16.prior_state_enumeration_histories", int64(len(hs)))
		return hs, nil
	}, JudgeC16, note)
	if err != nil {
		return nil, err
	}
	found = append(found, fe...)
	// build tags outside [0-9A-Za-z_]: dots and non-ASCII letters are legal in Go build tags
	fx, err := c.RunCases(2, func(i int) ([]*History, error) {
		tag := []string{"gen.goverter", "g\u00e9n\u00e9rer"}[i]
		hs := CorruptEveryOutputTag(c.Rng("c16-exotic-tag", i), LayoutOpts{UserPkgs: true, Guarded: true}, 1, tag)
		c.Stats.Add("c16.exotic_tag_histories", int64(len(hs)))
		return hs, nil
	}, JudgeC16, note)
	if err != nil {
		return nil, err
	}
	found = append(found, fx...)
	// one output file named through two spellings (a directory symbolic link inside the module)
	// by converters that agree on the package: whatever goverter makes of the two spellings,
	// the file carries one header and does not block the next run
	fl, err := c.RunCases(2, func(i int) ([]*History, error) {
		spec := &LSpec{UserPkgs: map[string]string{"gen": "gen"}, PkgNames: map[string]string{"a": "a", "b": "b"}, DirLinks: map[string]string{"link": "gen"}}
		spec.Convs = []LConv{
			{Dir: "a", File: "conv.go", Kind: "interface", Name: "La", Version: 1, OutFile: "../gen/out.go", OutPkg: importPath("gen")},
			{Dir: "b", File: "conv.go", Kind: "interface", Name: "Lb", Version: 1, OutFile: "../link/out.go", OutPkg: importPath("gen")},
		}
		w := spec.World("c16link")
		h := &History{World: w, Loc: i}
		for k := 0; k < 3; k++ {
			g := &GenSpec{Plan: planIdentity(), Expect: "ok"}
			if i == 1 {
				g.BuildTags, g.OutputConstraint = strp("codegen"), strp("!codegen")
			}
			h.Ops = append(h.Ops, genOp(g))
		}
		return []*History{h}, nil
	}, JudgeC16, note)
	if err != nil {
		return nil, err
	}
	found = append(found, fl...)
	fd, err := c.RunCases(nDrop, func(i int) ([]*History, error) {
		return []*History{NameThenDrop(c.Rng("c16-name-then-drop", i))}, nil
	}, JudgeC16, note)
	if err != nil {
		return nil, err
	}
	found = append(found, fd...)
	fcs, err := c.RunCases(nCrash, func(i int) ([]*History, error) {
		rng := c.Rng("c16-crash-shrink", i)
		return []*History{CrashThenShrink(rng, i%6, []string{"crash-before", "crash-after", "crash-torn"}[(i/6)%3])}, nil
	}, JudgeC16, note)
	if err != nil {
		return nil, err
	}
	found = append(found, fcs...)
	f4, err := c.RunCases(1, func(int) ([]*History, error) { return []*History{F9Probe()}, nil }, JudgeC16, note)
	if err != nil {
		return nil, err
	}
	found = append(found, f4...)
	out, err := c.finish("C16", "exploration", found, JudgeC16, func(c *Ctx, f Found) string { return f.V.Class })
	if err != nil {
		return nil, err
	}
	out.Coverage = map[string]any{
		"rule": "histories: initial generation, then drawn disturbances (type edits that make earlier output stale, break/heal converters, layout change, corrupt earlier output: delete / garbage body / truncated behind the header / junk appended; crashed or failing run with torn write behind the header; relocation) each followed by ONE fault-free regeneration in a drawn environment and map order; plus header-tearing histories (observed only) and explicit constraint settings. Non-trivial = prior outputs present, or a fault fired, or non-identity map order reached a >=2-entry map; distinct as in C09 (world, inputs, plan, faults, prior state, patterns, cwd form, location)",
		"observation_torn_header": "files cut inside their two header lines carry no build constraint; the go tool treats them as user sources. Such states are counted in probe_counters.torn_header_states / torn_header_blocked_regeneration and are outside the stated guarantee",
	}
	return out, nil
}
