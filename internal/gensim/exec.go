package gensim

import (
	"bufio"
	"bytes"
	"context"
	"crypto/sha256"
	"encoding/hex"
	"encoding/json"
	"fmt"
	"io/fs"
	"os"
	"os/exec"
	"path/filepath"
	"sort"
	"strings"
	"sync"
	"sync/atomic"
	"syscall"
	"time"

	"verif/internal/node"
)

// Entry is one object of a tree snapshot.
type Entry struct {
	Path  string `json:"path"`
	Dir   bool   `json:"dir,omitempty"`
	Mode  uint32 `json:"mode"`
	Size  int64  `json:"size"`
	Sha   string `json:"sha,omitempty"`
	Mtime int64  `json:"mtime"`
	Ino   uint64 `json:"ino"`
}

type Snapshot map[string]Entry

func TakeSnapshot(root string) (Snapshot, error) {
	snap := Snapshot{}
	err := filepath.WalkDir(root, func(p string, d fs.DirEntry, err error) error {
		if err != nil {
			return err
		}
		rel, _ := filepath.Rel(root, p)
		if rel == "." {
			return nil
		}
		fi, err := os.Lstat(p)
		if err != nil {
			return err
		}
		e := Entry{Path: filepath.ToSlash(rel), Dir: fi.IsDir(), Mode: uint32(fi.Mode()), Size: fi.Size(), Mtime: fi.ModTime().UnixNano()}
		if st, ok := fi.Sys().(*syscall.Stat_t); ok {
			e.Ino = st.Ino
		}
		if fi.Mode().IsRegular() {
			b, err := os.ReadFile(p)
			if err != nil {
				return err
			}
			s := sha256.Sum256(b)
			e.Sha = hex.EncodeToString(s[:])
		} else if e.Dir {
			e.Size = 0
			e.Mtime = 0 // directory mtimes change when children are added; tracked via children
		}
		snap[e.Path] = e
		return nil
	})
	return snap, err
}

// Diff lists paths created, modified (content or mode), touched (same content but
// inode/mtime changed) and removed between two snapshots.
type TreeDiff struct {
	Created  []string `json:"created,omitempty"`
	Modified []string `json:"modified,omitempty"`
	Touched  []string `json:"touched,omitempty"`
	Removed  []string `json:"removed,omitempty"`
}

func (d TreeDiff) Empty() bool {
	return len(d.Created)+len(d.Modified)+len(d.Touched)+len(d.Removed) == 0
}

func DiffSnap(a, b Snapshot) TreeDiff {
	var d TreeDiff
	for p, eb := range b {
		ea, ok := a[p]
		switch {
		case !ok:
			d.Created = append(d.Created, p)
		case ea.Sha != eb.Sha || ea.Mode != eb.Mode || ea.Dir != eb.Dir || (!eb.Dir && ea.Size != eb.Size):
			d.Modified = append(d.Modified, p)
		case ea.Mtime != eb.Mtime || ea.Ino != eb.Ino:
			d.Touched = append(d.Touched, p)
		}
	}
	for p := range a {
		if _, ok := b[p]; !ok {
			d.Removed = append(d.Removed, p)
		}
	}
	sort.Strings(d.Created)
	sort.Strings(d.Modified)
	sort.Strings(d.Touched)
	sort.Strings(d.Removed)
	return d
}

// Event is one line of the node's seam log.
type Event struct {
	T     string `json:"t"`
	Site  int    `json:"site,omitempty"`
	N     int    `json:"n,omitempty"`
	Visit int    `json:"visit,omitempty"`
	NonID bool   `json:"nonid,omitempty"`
	H     uint32 `json:"h,omitempty"`
	I     int    `json:"i,omitempty"`
	Op    string `json:"op,omitempty"`
	Path  string `json:"path,omitempty"`
	Mode  int    `json:"mode,omitempty"`
	Len   int    `json:"len,omitempty"`
	Sha   string `json:"sha,omitempty"`
	Fault string `json:"fault,omitempty"`
	What  string `json:"what,omitempty"`
}

// Obs is what the driver observed of one gen op.
type Obs struct {
	OpIndex int      `json:"op"`
	Argv    []string `json:"argv"`
	Exit    int      `json:"exit"`
	Stdout  string   `json:"stdout"`
	Stderr  string   `json:"stderr"` // root normalised to @root
	Events  []Event  `json:"events,omitempty"`
	Diff    TreeDiff `json:"diff"`
	// Files are the contents of every non-input regular file after the op (relative path).
	Outputs map[string]string `json:"-"`
	// Written are the files created or modified by this op with their content.
	Written map[string]string `json:"-"`
	Before  Snapshot          `json:"-"`
	After   Snapshot          `json:"-"`
	// PriorOutputs are non-input files that existed before the op (path → content).
	PriorOutputs map[string]string `json:"-"`
	Inputs       map[string]string `json:"-"`
	Root         string            `json:"-"`
	Crashed      bool              `json:"crashed,omitempty"`
	FaultsFired  []string          `json:"faults_fired,omitempty"`
	TimedOut     bool              `json:"timed_out,omitempty"`
	WallMs       int64             `json:"-"`
}

// Runner executes histories against the node binaries.
type Runner struct {
	Node    *node.Node
	Base    string // scratch base for world trees
	Timeout time.Duration
	counter atomic.Int64
	// Invocations counts node processes started.
	Invocations atomic.Int64
}

func NewRunner(n *node.Node) *Runner {
	base := filepath.Join(n.Scratch, "w")
	_ = os.MkdirAll(base, 0o755)
	return &Runner{Node: n, Base: base, Timeout: 120 * time.Second}
}

// InfraError marks harness trouble (exit 2).
type InfraError struct{ Msg string }

func (e *InfraError) Error() string { return e.Msg }

var locNames = []string{"loc-a/m", "other/deeper/place/mod", "x", "loc with space/m"}

func writeTree(root string, w *World) error {
	if err := os.MkdirAll(root, 0o755); err != nil {
		return err
	}
	if _, ok := w.Files["go.mod"]; !ok {
		if err := os.WriteFile(filepath.Join(root, "go.mod"), []byte("module "+w.Module+"\ngo 1.18\n"), 0o644); err != nil {
			return err
		}
	}
	for p, c := range w.Files {
		fp := filepath.Join(root, filepath.FromSlash(p))
		if err := os.MkdirAll(filepath.Dir(fp), 0o755); err != nil {
			return err
		}
		if err := os.WriteFile(fp, []byte(strings.ReplaceAll(c, RootPlaceholder, root)), 0o644); err != nil {
			return err
		}
	}
	for link, target := range w.Symlinks {
		lp := filepath.Join(root, filepath.FromSlash(link))
		if err := os.MkdirAll(filepath.Dir(lp), 0o755); err != nil {
			return err
		}
		rel, err := filepath.Rel(filepath.Dir(lp), filepath.Join(root, filepath.FromSlash(target)))
		if err != nil {
			return err
		}
		if err := os.Symlink(rel, lp); err != nil {
			return err
		}
	}
	return nil
}

// Exec runs a history and returns one Obs per gen op.
func (r *Runner) Exec(h *History) ([]*Obs, error) {
	id := r.counter.Add(1)
	top := filepath.Join(r.Base, fmt.Sprintf("h%d", id))
	defer os.RemoveAll(top)
	loc := h.Loc % len(locNames)
	placeholder := false
	for _, c := range h.World.Files {
		if strings.Contains(c, RootPlaceholder) {
			placeholder = true
		}
	}
	for _, op := range h.Ops {
		if strings.Contains(op.Content, RootPlaceholder) {
			placeholder = true
		}
	}
	// an absolute path inside a goverter: setting cannot contain a space
	if placeholder && strings.Contains(locNames[loc], " ") {
		loc = 0
	}
	root := filepath.Join(top, locNames[loc])
	if err := writeTree(root, h.World); err != nil {
		return nil, &InfraError{Msg: "write world: " + err.Error()}
	}
	inputs := map[string]string{}
	for p, c := range h.World.Files {
		inputs[p] = c
	}
	for link, target := range h.World.Symlinks {
		inputs[link] = h.World.Files[target]
	}
	if _, ok := inputs["go.mod"]; !ok {
		inputs["go.mod"] = "module " + h.World.Module + "\ngo 1.18\n"
	}
	var out []*Obs
	for i, op := range h.Ops {
		switch op.Kind {
		case "write":
			fp := filepath.Join(root, filepath.FromSlash(op.Path))
			if err := os.MkdirAll(filepath.Dir(fp), 0o755); err != nil {
				return nil, &InfraError{Msg: err.Error()}
			}
			if err := os.WriteFile(fp, []byte(strings.ReplaceAll(op.Content, RootPlaceholder, root)), 0o644); err != nil {
				return nil, &InfraError{Msg: err.Error()}
			}
			if op.Input {
				inputs[op.Path] = op.Content
				for link, target := range h.World.Symlinks {
					if _, live := inputs[link]; live && target == op.Path {
						inputs[link] = op.Content
					}
				}
			}
		case "remove":
			_ = os.Remove(filepath.Join(root, filepath.FromSlash(op.Path)))
			if op.Input {
				delete(inputs, op.Path)
				// a link to a removed source goes with it (no dangling declaring file)
				for link, target := range h.World.Symlinks {
					if target == op.Path {
						_ = os.Remove(filepath.Join(root, filepath.FromSlash(link)))
						delete(inputs, link)
					}
				}
			}
		case "truncate":
			fp := filepath.Join(root, filepath.FromSlash(op.Path))
			if b, err := os.ReadFile(fp); err == nil {
				n := op.N
				if n < 0 {
					n = len(b) + n
				}
				if n < 0 {
					n = 0
				}
				if n > len(b) {
					n = len(b)
				}
				if err := os.WriteFile(fp, b[:n], 0o644); err != nil {
					return nil, &InfraError{Msg: err.Error()}
				}
			}
		case "corrupt":
			if err := corrupt(root, inputs, op); err != nil {
				return nil, &InfraError{Msg: err.Error()}
			}
		case "relocate":
			loc = (loc + 1 + op.N) % len(locNames)
			if placeholder && strings.Contains(locNames[loc], " ") {
				loc = (loc + 1) % len(locNames)
			}
			nroot := filepath.Join(top, fmt.Sprintf("r%d", i), locNames[loc])
			if err := os.MkdirAll(filepath.Dir(nroot), 0o755); err != nil {
				return nil, &InfraError{Msg: err.Error()}
			}
			if err := os.Rename(root, nroot); err != nil {
				return nil, &InfraError{Msg: err.Error()}
			}
			root = nroot
		case "gen":
			o, err := r.gen(root, top, h.World, op.Gen, inputs)
			if err != nil {
				return nil, err
			}
			o.OpIndex = i
			out = append(out, o)
		default:
			return nil, &InfraError{Msg: "unknown op " + op.Kind}
		}
	}
	return out, nil
}

func copyMap(m map[string]string) map[string]string {
	c := make(map[string]string, len(m))
	for k, v := range m {
		c[k] = v
	}
	return c
}

func readNonInputs(root string, snap Snapshot, inputs map[string]string) map[string]string {
	out := map[string]string{}
	for p, e := range snap {
		if e.Dir {
			continue
		}
		if _, isIn := inputs[p]; isIn {
			continue
		}
		b, err := os.ReadFile(filepath.Join(root, filepath.FromSlash(p)))
		if err == nil {
			out[p] = string(b)
		}
	}
	return out
}

// BuildArgv renders the CLI argument vector and the process directory for a gen spec.
func BuildArgv(g *GenSpec, w *World, root, top string) (argv []string, dir string) {
	if g.Argv != nil {
		return g.Argv, root
	}
	argv = []string{"gen"}
	switch g.Cwd {
	case "abs":
		dir = top
		argv = append(argv, "-cwd", root)
	case "abs-slash":
		dir = top
		argv = append(argv, "-cwd", root+"/")
	case "symlink":
		// -cwd names a symbolic link to the module root
		dir = top
		link := root + "-link"
		_ = os.Remove(link)
		_ = os.Symlink(root, link)
		argv = append(argv, "-cwd", link)
	case "rel":
		dir = filepath.Dir(root)
		argv = append(argv, "-cwd", "./"+filepath.Base(root))
	case "dotdot-symlink":
		// the process is started inside a symbolic link that points INTO the module (a
		// sub-directory) and passes `-cwd ..`: the operating system resolves that to the module
		// root, $PWD/.. is the directory that holds the link
		link := filepath.Join(top, "sublink")
		_ = os.Remove(link)
		_ = os.Symlink(filepath.Join(root, "_cwdsub"), link)
		dir = link
		argv = append(argv, "-cwd", "..")
	case "chdir-symlink", "symlink-rel":
		// the process is started inside a symbolic link to the module root (PWD names the
		// link); symlink-rel additionally passes `-cwd .`
		link := root + "-link"
		_ = os.Remove(link)
		_ = os.Symlink(root, link)
		dir = link
		if g.Cwd == "symlink-rel" {
			argv = append(argv, "-cwd", ".")
		}
	default:
		dir = root
		if strings.HasPrefix(g.Cwd, "sublink:") {
			// `-cwd plink` (relative), plink being a symbolic link to a package directory
			// inside the module: the module root is a parent of the directory, not of the link
			dir = top
			link := filepath.Join(top, "plink")
			_ = os.Remove(link)
			_ = os.Symlink(filepath.Join(root, filepath.FromSlash(strings.TrimPrefix(g.Cwd, "sublink:"))), link)
			argv = append(argv, "-cwd", "plink")
		}
		if strings.HasPrefix(g.Cwd, "sub:") {
			dir = filepath.Join(root, filepath.FromSlash(strings.TrimPrefix(g.Cwd, "sub:")))
		}
	}
	globals := g.Globals
	if globals == nil {
		globals = w.Globals
	}
	for _, gl := range globals {
		argv = append(argv, "-g", gl)
	}
	bt := g.BuildTags
	if bt == nil {
		bt = w.BuildTags
	}
	if bt != nil {
		argv = append(argv, "-build-tags", *bt)
	}
	oc := g.OutputConstraint
	if oc == nil {
		oc = w.OutputConstraint
	}
	if oc != nil {
		argv = append(argv, "-output-constraint", *oc)
	}
	pats := g.Patterns
	if pats == nil {
		pats = w.Patterns
	}
	if strings.HasPrefix(g.Cwd, "sub:") || strings.HasPrefix(g.Cwd, "sublink:") {
		// patterns are given relative to the invocation directory
		sub := strings.TrimPrefix(strings.TrimPrefix(g.Cwd, "sub:"), "sublink:")
		rel := make([]string, 0, len(pats))
		for _, p := range pats {
			if strings.HasPrefix(p, "./") || p == "." {
				r, err := filepath.Rel(filepath.FromSlash(sub), filepath.FromSlash(strings.TrimPrefix(p, "./")))
				if err == nil {
					r = filepath.ToSlash(r)
					if !strings.HasPrefix(r, ".") {
						r = "./" + r
					}
					p = r
				}
			}
			rel = append(rel, p)
		}
		pats = rel
	}
	argv = append(argv, pats...)
	return argv, dir
}

// settleClock is the simulated modification clock: every file changed since the last run gets
// the next tick as mtime, far enough in the past for the go command's 2-second rule.
var settleClock atomic.Int64

func settle(root string) error {
	cutoff := time.Now().Add(-time.Hour)
	base := time.Date(2015, 1, 1, 0, 0, 0, 0, time.UTC)
	var files []string
	err := filepath.WalkDir(root, func(p string, d fs.DirEntry, err error) error {
		if err != nil {
			return err
		}
		if d.Type().IsRegular() {
			if fi, err := d.Info(); err == nil && fi.ModTime().After(cutoff) {
				files = append(files, p)
			}
		}
		return nil
	})
	if err != nil {
		return err
	}
	sort.Strings(files)
	for _, p := range files {
		t := base.Add(time.Duration(settleClock.Add(1)) * 3 * time.Second)
		if err := os.Chtimes(p, t, t); err != nil {
			return err
		}
	}
	return nil
}

func (r *Runner) gen(root, top string, w *World, g *GenSpec, inputs map[string]string) (*Obs, error) {
	if err := settle(root); err != nil {
		return nil, &InfraError{Msg: "settle: " + err.Error()}
	}
	if g.Cwd == "dotdot-symlink" {
		_ = os.MkdirAll(filepath.Join(root, "_cwdsub"), 0o755)
	}
	before, err := TakeSnapshot(root)
	if err != nil {
		return nil, &InfraError{Msg: "snapshot: " + err.Error()}
	}
	o := &Obs{Before: before, Root: root, Inputs: copyMap(inputs)}
	o.PriorOutputs = readNonInputs(root, before, inputs)

	argv, dir := BuildArgv(g, w, root, top)
	o.Argv = argv
	bin := r.Node.SimBin
	if g.Orig {
		bin = r.Node.OrigBin
	} else if g.CustomCLI {
		bin = r.Node.SimCustomBin
	}
	n := r.counter.Add(1)
	planPath := filepath.Join(top, fmt.Sprintf("plan-%d.json", n))
	logPath := filepath.Join(top, fmt.Sprintf("log-%d.jsonl", n))
	plan := g.Plan
	if plan.Goroutines == "" && r.Node.HasKind("go") {
		// canonical goroutine semantics when the code under test spawns goroutines at all:
		// run them inline, in spawn order; "native" and "deferred" are explicit variations
		plan.Goroutines = "inline"
	}
	pb, _ := json.Marshal(plan)
	if err := os.WriteFile(planPath, pb, 0o644); err != nil {
		return nil, &InfraError{Msg: err.Error()}
	}
	umask := g.Umask
	if umask == 0 {
		umask = 0o022
	}
	ctx, cancel := context.WithTimeout(context.Background(), r.Timeout)
	defer cancel()
	shArgs := append([]string{"-c", fmt.Sprintf(`umask %04o && exec "$@"`, umask), "sh", bin}, argv...)
	cmd := exec.CommandContext(ctx, "/bin/sh", shArgs...)
	cmd.Dir = dir
	env := []string{}
	for _, e := range os.Environ() {
		if strings.HasPrefix(e, "GOFLAGS=") || strings.HasPrefix(e, "GOMAXPROCS=") || strings.HasPrefix(e, "VERIF_") || strings.HasPrefix(e, "GOWORK=") || strings.HasPrefix(e, "PWD=") {
			continue
		}
		env = append(env, e)
	}
	env = append(env, "GOFLAGS=", "GOPROXY=off", "GOSUMDB=off", "GOTOOLCHAIN=local", "GOWORK=off", "PWD="+dir,
		"VERIF_PLAN="+planPath, "VERIF_LOG="+logPath)
	if g.Gomaxprocs > 0 {
		env = append(env, fmt.Sprintf("GOMAXPROCS=%d", g.Gomaxprocs))
	}
	if g.FileAge == "fresh" {
		env = append(env, "GODEBUG=goindex=0")
	}
	if len(g.Env) > 0 {
		// keep the go tool's own locations fixed while HOME etc. vary
		for _, k := range []string{"GOCACHE", "GOPATH", "GOMODCACHE"} {
			if v := goEnvValue(k); v != "" {
				env = append(env, k+"="+v)
			}
		}
		keys := make([]string, 0, len(g.Env))
		for k := range g.Env {
			keys = append(keys, k)
		}
		sort.Strings(keys)
		for _, k := range keys {
			env = append(env, k+"="+g.Env[k])
		}
	}
	cmd.Env = env
	var so, se bytes.Buffer
	cmd.Stdout = &so
	cmd.Stderr = &se
	t0 := time.Now()
	runErr := cmd.Run()
	o.WallMs = time.Since(t0).Milliseconds()
	r.Invocations.Add(1)
	if ctx.Err() != nil {
		o.TimedOut = true
	}
	o.Exit = 0
	if runErr != nil {
		if ee, ok := runErr.(*exec.ExitError); ok {
			o.Exit = ee.ExitCode()
		} else {
			return nil, &InfraError{Msg: "cannot start node: " + runErr.Error()}
		}
	}
	norm := func(s string) string {
		s = strings.ReplaceAll(s, root+"-link", "@root")
		s = strings.ReplaceAll(s, root, "@root")
		return s
	}
	o.Stdout = norm(so.String())
	o.Stderr = norm(se.String())
	if f, err := os.Open(logPath); err == nil {
		sc := bufio.NewScanner(f)
		sc.Buffer(make([]byte, 1<<20), 1<<24)
		for sc.Scan() {
			var ev Event
			if json.Unmarshal(sc.Bytes(), &ev) == nil {
				ev.Path = norm(ev.Path)
				o.Events = append(o.Events, ev)
				if ev.T == "crash" {
					o.Crashed = true
				}
				if ev.T == "disk" && ev.Fault != "" {
					o.FaultsFired = append(o.FaultsFired, ev.Fault)
				}
			}
		}
		f.Close()
	}
	_ = os.Remove(planPath)
	_ = os.Remove(logPath)
	after, err := TakeSnapshot(root)
	if err != nil {
		return nil, &InfraError{Msg: "snapshot: " + err.Error()}
	}
	o.After = after
	o.Diff = DiffSnap(before, after)
	o.Outputs = readNonInputs(root, after, inputs)
	o.Written = map[string]string{}
	for _, p := range append(append([]string{}, o.Diff.Created...), append(o.Diff.Modified, o.Diff.Touched...)...) {
		if e := after[p]; !e.Dir {
			b, _ := os.ReadFile(filepath.Join(root, filepath.FromSlash(p)))
			o.Written[p] = string(b)
		}
	}
	return o, nil
}

// DiskEvents returns the mutating disk calls of an observation.
func (o *Obs) DiskEvents() []Event {
	var out []Event
	for _, e := range o.Events {
		if e.T == "disk" {
			out = append(out, e)
		}
	}
	return out
}

// RangeReach returns site → visits with ≥2 entries.
func (o *Obs) RangeReach() map[int]int {
	m := map[int]int{}
	for _, e := range o.Events {
		if e.T == "range" {
			m[e.Site]++
		}
	}
	return m
}

// corrupt damages one previously generated (non-input) .go file, chosen by index among the
// sorted candidates; how = delete | garbage | trunc-body | trunc-header | append-junk | nul-body | stale-keep.
func corrupt(root string, inputs map[string]string, op Op) error {
	snap, err := TakeSnapshot(root)
	if err != nil {
		return err
	}
	var cands []string
	for p, e := range snap {
		if e.Dir || !strings.HasSuffix(p, ".go") {
			continue
		}
		if _, in := inputs[p]; in {
			continue
		}
		cands = append(cands, p)
	}
	if len(cands) == 0 {
		return nil
	}
	sort.Strings(cands)
	p := cands[op.N%len(cands)]
	fp := filepath.Join(root, filepath.FromSlash(p))
	b, err := os.ReadFile(fp)
	if err != nil {
		return err
	}
	lines := strings.SplitN(string(b), "\n", 3)
	hdr := len(b)
	if len(lines) == 3 {
		hdr = len(lines[0]) + len(lines[1]) + 2
	}
	var m int
	fmt.Sscan(op.Path, &m)
	switch op.Content {
	case "delete":
		return os.Remove(fp)
	case "garbage":
		if len(lines) == 3 {
			return os.WriteFile(fp, []byte(lines[0]+"\n"+lines[1]+"\n\nthis is {{{ not go at all\n"), 0o644)
		}
	case "trunc-body":
		if len(b) > hdr {
			return os.WriteFile(fp, b[:hdr+m%(len(b)-hdr)], 0o644)
		}
	case "trunc-header":
		if hdr > 0 {
			return os.WriteFile(fp, b[:m%hdr], 0o644)
		}
	case "append-junk":
		return os.WriteFile(fp, append(b, []byte("\nfunc (\n")...), 0o644)
	case "nul-body":
		// the two header lines reached the disk, the rest of the file was allocated but its
		// data never written (zero-filled blocks after a crash)
		if len(b) > hdr {
			nb := append([]byte{}, b[:hdr]...)
			nb = append(nb, make([]byte, len(b)-hdr)...)
			return os.WriteFile(fp, nb, 0o644)
		}
	}
	return nil
}

var goEnvCache sync.Map

func goEnvValue(k string) string {
	if v, ok := goEnvCache.Load(k); ok {
		return v.(string)
	}
	out, err := exec.Command("go", "env", k).Output()
	v := ""
	if err == nil {
		v = strings.TrimSpace(string(out))
	}
	goEnvCache.Store(k, v)
	return v
}
