package gensim

import (
	"fmt"
	"math/rand/v2"
	"os"
	"path"
	"sort"
	"strings"

	"verif/internal/rt/verifsim"
)

// ---- independent CLI model (docs/reference/cli.md) -------------------------------------

// CLIModel classifies an argument vector (after the program name):
// "help" (exit 0, usage on stdout), "usage" (exit 1, message on stderr), "version" (exit 0),
// "generate".
func CLIModel(argv []string) string {
	i := 0
	for i < len(argv) && strings.HasPrefix(argv[i], "-") && argv[i] != "-" {
		name := strings.TrimLeft(argv[i], "-")
		if k := strings.Index(name, "="); k >= 0 {
			name = name[:k]
		}
		if name == "h" || name == "help" {
			return "help"
		}
		return "usage" // no top-level options are documented
	}
	if i >= len(argv) {
		return "usage"
	}
	switch argv[i] {
	case "help":
		return "help"
	case "version":
		return "version"
	case "gen":
	default:
		return "usage"
	}
	i++
	valued := map[string]bool{"g": true, "global": true, "build-tags": true, "output-constraint": true, "cwd": true}
	for i < len(argv) && strings.HasPrefix(argv[i], "-") && argv[i] != "-" {
		name := strings.TrimLeft(argv[i], "-")
		hasEq := false
		if k := strings.Index(name, "="); k >= 0 {
			name = name[:k]
			hasEq = true
		}
		if name == "h" || name == "help" {
			return "help"
		}
		if !valued[name] {
			return "usage"
		}
		if !hasEq {
			i++
			if i >= len(argv) {
				return "usage" // flag needs an argument
			}
		}
		i++
	}
	if i >= len(argv) {
		return "usage" // missing PATTERN
	}
	return "generate"
}

// DrawArgv draws an argument vector from the grammar whose meaning the documentation
// fixes. For the "generate" class only vectors equivalent to the canonical invocation of
// the given world are produced.
func DrawArgv(rng *rand.Rand, w *World) []string {
	var a []string
	switch rng.IntN(10) {
	case 0:
		return []string{}
	case 1:
		a = append(a, []string{"-h", "--help", "-help"}[rng.IntN(3)])
	case 2:
		a = append(a, []string{"-x", "--verbose", "-cwd=/tmp", "-g"}[rng.IntN(4)])
	}
	cmd := []string{"gen", "gen", "gen", "gen", "help", "version", "generate", "Gen", "", "build"}[rng.IntN(10)]
	if cmd == "" {
		return a
	}
	a = append(a, cmd)
	if cmd != "gen" {
		if rng.IntN(2) == 0 {
			a = append(a, "./...")
		}
		return a
	}
	nf := rng.IntN(4)
	for k := 0; k < nf; k++ {
		switch rng.IntN(12) {
		case 0:
			a = append(a, "-h")
		case 1:
			a = append(a, "--help")
		case 2:
			a = append(a, "-unknown")
		case 3:
			a = append(a, "--nope=1")
		case 4:
			a = append(a, "-build-tags", effTags(&GenSpec{}, w))
		case 5:
			a = append(a, "-output-constraint="+effConstraint(&GenSpec{}, w))
		case 6:
			a = append(a, "-cwd", ".")
		case 7:
			a = append(a, "--build-tags="+effTags(&GenSpec{}, w))
		case 8:
			if rng.IntN(2) == 0 {
				a = append(a, "-g") // may end the vector: missing value
				if rng.IntN(2) == 0 {
					return a
				}
				a = append(a, "wrapErrors no")
			}
		case 9:
			a = append(a, "-global", "ignoreMissing no")
		}
	}
	if rng.IntN(5) != 0 {
		pats := append([]string(nil), w.Patterns...)
		rng.Shuffle(len(pats), func(i, j int) { pats[i], pats[j] = pats[j], pats[i] })
		a = append(a, pats...)
	}
	return a
}

var errnoText = map[string]string{"ENOSPC": "no space left on device", "EACCES": "permission denied", "EIO": "input/output error", "EROFS": "read-only file system", "EDQUOT": "disk quota exceeded"}

// JudgeC17: failing runs change nothing; exit status is truthful.
func JudgeC17(c *Ctx, h *History, obs []*Obs) ([]Violation, error) {
	var out []Violation
	add := func(o *Obs, class, msg string) {
		out = append(out, Violation{Property: "C17", Class: class, OpIndex: o.OpIndex, Msg: msg})
	}
	for _, o := range obs {
		g := h.Ops[o.OpIndex].Gen
		if g.Setup {
			continue
		}
		if o.TimedOut {
			return nil, &InfraError{Msg: "node timed out"}
		}
		mut := o.DiskEvents()
		untouched := func(what string) bool {
			ok := true
			if len(mut) > 0 {
				add(o, what+"-disk-call", fmt.Sprintf("%s but %d mutating disk call(s) were issued, first: %s %s", what, len(mut), mut[0].Op, mut[0].Path))
				ok = false
			} else if !o.Diff.Empty() {
				add(o, what+"-tree-changed", fmt.Sprintf("%s but the tree changed: created=%v modified=%v touched=%v removed=%v", what, o.Diff.Created, o.Diff.Modified, o.Diff.Touched, o.Diff.Removed))
				ok = false
			}
			return ok
		}
		if g.Argv != nil {
			class := CLIModel(g.Argv)
			c.Stats.Add("c17.argv_"+class, 1)
			switch class {
			case "help":
				if o.Exit != 0 {
					add(o, "help-exit", fmt.Sprintf("help requested by %q but exit status %d", g.Argv, o.Exit))
				} else if !strings.Contains(o.Stdout, "Usage:") {
					add(o, "help-output", fmt.Sprintf("help requested by %q but no usage text on stdout", g.Argv))
				}
				untouched("help-run")
			case "usage":
				if o.Exit != 1 {
					add(o, "usage-exit", fmt.Sprintf("usage error %q must exit 1, got %d (stderr %q)", g.Argv, o.Exit, trunc(o.Stderr, 120)))
				} else if strings.TrimSpace(o.Stderr) == "" {
					add(o, "usage-output", fmt.Sprintf("usage error %q printed nothing on stderr", g.Argv))
				}
				untouched("usage-error-run")
			case "version":
				if o.Exit != 0 {
					add(o, "version-exit", fmt.Sprintf("version must exit 0, got %d", o.Exit))
				}
				untouched("version-run")
			case "generate":
				// only vectors equivalent to the canonical invocation are drawn
				if err := c.judgeSuccess(h, o, g, add); err != nil {
					return nil, err
				}
			}
			continue
		}
		if !o.Crashed && o.Exit != 0 && o.Exit != 1 {
			add(o, "exit-status", fmt.Sprintf("exit status %d (only 0 and 1 are defined; 2 is a Go panic): %s", o.Exit, trunc(o.Stderr, 300)))
			continue
		}
		fired := len(o.FaultsFired) > 0
		switch {
		case g.Expect == "fail":
			c.Stats.Add("c17.defective_runs", 1)
			if o.Exit != 1 {
				add(o, "defect-exit", fmt.Sprintf("a selected converter is defective (%s) but exit status is %d", h.Ops[o.OpIndex].Label, o.Exit))
				break
			}
			if strings.TrimSpace(o.Stderr) == "" {
				add(o, "defect-silent", "defective converter: exit 1 but no diagnostic on stderr")
			}
			untouched("failing-run")
		case fired && !o.Crashed:
			c.Stats.Add("c17.disk_error_runs", 1)
			f := g.Plan.Faults[0]
			if o.Exit == 0 {
				// contrapositive of "exits 0 after writing every output file completely"
				if err := c.judgeSuccess(h, o, g, add); err != nil {
					return nil, err
				}
				if len(out) == 0 {
					add(o, "disk-error-swallowed", fmt.Sprintf("disk call #%d failed with %s (%s) but goverter exited 0", f.Call, f.Err, f.Kind))
				}
			} else if want := errnoText[f.Err]; f.Kind == "write-enospc" && !strings.Contains(o.Stderr, errnoText["ENOSPC"]) || f.Kind != "write-enospc" && !strings.Contains(o.Stderr, want) {
				add(o, "disk-error-diagnostic", fmt.Sprintf("injected %s at call #%d, exit %d, but stderr does not carry the error: %q", f.Err, f.Call, o.Exit, trunc(o.Stderr, 200)))
			}
		case o.Crashed:
			c.Stats.Add("c17.crashed_runs", 1)
		case g.Expect == "ok":
			c.Stats.Add("c17.healthy_runs", 1)
			if err := c.judgeSuccess(h, o, g, add); err != nil {
				return nil, err
			}
		}
	}
	return out, nil
}

// judgeSuccess: exit 0 and every file of the clean-tree reference exists with equal bytes.
func (c *Ctx) judgeSuccess(h *History, o *Obs, g *GenSpec, add func(o *Obs, class, msg string)) error {
	canon := g.Canon
	if canon == nil {
		canon = h.World.Patterns
	}
	globals := g.Globals
	if globals == nil {
		globals = h.World.Globals
	}
	if g.Argv != nil {
		globals = append([]string{}, globals...)
		for i := 0; i < len(g.Argv); i++ {
			name := strings.TrimLeft(g.Argv[i], "-")
			if strings.HasPrefix(g.Argv[i], "-") && (name == "g" || name == "global") && i+1 < len(g.Argv) {
				globals = append(globals, g.Argv[i+1])
				i++
			}
		}
	}
	ref, err := c.Ref(h.World.Module, o.Inputs, RefOpts{Globals: globals, BuildTags: h.World.BuildTags, OutputConstraint: h.World.OutputConstraint, Patterns: canon})
	if err != nil {
		return err
	}
	if ref.Exit != 0 {
		if g.Spec != nil && g.Expect == "ok" && len(o.FaultsFired) == 0 && o.Exit != 0 && h.Ops[o.OpIndex].Label == "success-from-clean-tree" {
			// healthy by the layout spec (independent of goverter), a clean tree, no fault: a
			// failing run here fails in the reference as well, which must not hide it
			add(o, "healthy-exit", fmt.Sprintf("all converters healthy (by the layout spec), clean tree, no fault fired, but exit %d: %s", o.Exit, trunc(o.Stderr, 200)))
			return nil
		}
		// the world was meant to be healthy; if the reference disagrees the generator of
		// the case is wrong, not goverter
		c.Stats.Add("c17.expected_healthy_but_reference_fails", 1)
		return nil
	}
	if o.Exit != 0 {
		if len(o.FaultsFired) == 0 {
			add(o, "healthy-exit", fmt.Sprintf("all converters healthy, no fault fired, but exit %d: %s", o.Exit, trunc(o.Stderr, 200)))
		}
		return nil
	}
	if g.Spec != nil && g.Expect == "ok" && len(o.FaultsFired) == 0 {
		// independent of goverter: every healthy converter of the spec has its output file
		for i := range g.Spec.Convs {
			p := g.Spec.Predict(&g.Spec.Convs[i]).Path
			if _, ok := o.Outputs[p]; !ok {
				add(o, "exit0-converter-not-written", fmt.Sprintf("exit 0 but converter %s (package %s) has no output file %s", g.Spec.Convs[i].Name, g.Spec.Convs[i].Dir, p))
				return nil
			}
		}
	}
	var paths []string
	for p := range ref.Written {
		paths = append(paths, p)
	}
	sort.Strings(paths)
	for _, p := range paths {
		got, ok := o.Outputs[p]
		if !ok {
			add(o, "exit0-file-missing", "exit 0 but output file "+p+" does not exist")
			return nil
		}
		if got != ref.Written[p] {
			add(o, "exit0-file-incomplete", "exit 0 but output file "+p+" is not the complete output: "+firstDiff(got, ref.Written[p]))
			return nil
		}
	}
	return nil
}

var faultKinds = []string{"err", "create-then-err", "short", "partial-mkdir", "write-enospc", "crash-before", "crash-after", "crash-torn"}
var stages = []string{"directive", "methoddirective", "signature", "conversion", "marker", "load", "render", "syntax", "generic", "errorfield", "extendlist"}

// stageFor maps a stage onto one that exists for the converter: an empty variables block has
// no function a signature-, method- or conversion-stage defect could sit on.
func stageFor(c *LConv, st string) string {
	if c.Empty {
		switch st {
		case "signature", "methoddirective", "conversion", "generic", "errorfield":
			return "directive"
		}
	}
	return st
}

// C17Cases builds the fault enumeration for one layout spec.
func C17Cases(c *Ctx, rng *rand.Rand, spec *LSpec, withDisk bool, nArgv int) ([]*History, error) {
	var hs []*History
	w1 := spec.World("c17")
	v2 := spec.Bump()
	if rng.IntN(2) == 0 {
		v2 = v2.Shorten() // regenerated outputs are shorter than the pre-existing ones
	}
	n := len(spec.Convs)
	setup := func() Op { return genOp(&GenSpec{Setup: true, Plan: planIdentity()}) }
	// (a) converter faults: every non-empty subset (all for n ≤ 4, sampled above)
	var subsets []int
	if n <= 4 {
		for m := 1; m < 1<<n; m++ {
			subsets = append(subsets, m)
		}
	} else {
		seen := map[int]bool{}
		for len(subsets) < 15 {
			m := 1 + rng.IntN(1<<n-1)
			if !seen[m] {
				seen[m] = true
				subsets = append(subsets, m)
			}
		}
	}
	type sub struct {
		mask  int
		stage string // "" = drawn per member
	}
	var cases []sub
	for _, m := range subsets {
		if m&(m-1) == 0 {
			// exactly one defective converter: every stage in turn
			for _, st := range stages {
				cases = append(cases, sub{m, st})
			}
		} else {
			cases = append(cases, sub{m, ""})
		}
	}
	for _, cs := range cases {
		m := cs.mask
		bad := v2.Clone()
		var lab []string
		for i := 0; i < n; i++ {
			if m&(1<<i) != 0 {
				bad.Convs[i].Defect = stages[rng.IntN(len(stages))]
				if cs.stage != "" {
					bad.Convs[i].Defect = cs.stage
				}
				bad.Convs[i].Defect = stageFor(&bad.Convs[i], bad.Convs[i].Defect)
				lab = append(lab, fmt.Sprintf("%s:%s", bad.Convs[i].Name, bad.Convs[i].Defect))
			}
		}
		h := &History{World: w1, Loc: rng.IntN(len(locNames))}
		h.Ops = append(h.Ops, setup())
		h.Ops = append(h.Ops, editOps("EditTypes+BreakConverters", w1.Files, bad.Render())...)
		g := &GenSpec{Expect: "fail", Plan: planAll("perm", 0, rng.Uint64()), Spec: bad}
		envVariant(rng, g, w1)
		op := genOp(g)
		op.Label = "defective=" + strings.Join(lab, ",")
		h.Ops = append(h.Ops, op)
		hs = append(hs, h)
	}
	// (b) disk faults on the all-healthy world: learn the fault-free call list first
	if withDisk {
		probe := &History{World: w1, Ops: []Op{setup()}}
		probe.Ops = append(probe.Ops, editOps("EditTypes", w1.Files, v2.Render())...)
		probe.Ops = append(probe.Ops, genOp(&GenSpec{Expect: "ok", Plan: planIdentity(), Spec: v2}))
		obs, err := c.Runner.Exec(probe)
		if err != nil {
			return nil, err
		}
		last := obs[len(obs)-1]
		calls := last.DiskEvents()
		c.Stats.Add("c17.disk_calls_enumerated", int64(len(calls)))
		hs = append(hs, probe)
		for k := range calls {
			for _, kind := range faultKinds {
				if calls[k].Op == "MkdirAll" && (kind == "create-then-err" || kind == "short" || kind == "crash-torn") {
					continue
				}
				if calls[k].Op != "MkdirAll" && kind == "partial-mkdir" {
					continue
				}
				isOpen := calls[k].Op == "OpenFile" || calls[k].Op == "Create" || calls[k].Op == "CreateTemp"
				if kind == "write-enospc" && !isOpen {
					continue
				}
				if isOpen && (kind == "create-then-err" || kind == "short") {
					continue // same model as write-enospc for handles
				}
				f := verifsim.Fault{Call: k, Kind: kind, Err: []string{"ENOSPC", "EACCES", "EIO", "EROFS"}[rng.IntN(4)]}
				if kind == "short" || kind == "crash-torn" {
					f.N = tornLens[rng.IntN(len(tornLens))]
				}
				for _, over := range []bool{true, false} {
					h := &History{World: w1, Loc: rng.IntN(len(locNames))}
					if over {
						h.Ops = append(h.Ops, setup())
						h.Ops = append(h.Ops, editOps("EditTypes", w1.Files, v2.Render())...)
					}
					g := &GenSpec{Expect: "ok", Plan: planIdentity(), Spec: v2}
					if !over {
						g.Spec = spec
					}
					// the order of disk calls follows map order at runner.go; keep identity so
					// that call index k means the same call as in the probe
					g.Plan.Faults = []verifsim.Fault{f}
					h.Ops = append(h.Ops, genOp(g))
					hs = append(hs, h)
				}
			}
		}
	}
	// (d) earlier output visible to the loader (constraint configured empty, or no build tag):
	// after the types changed the stale output no longer compiles; with another converter
	// defective the run must fail and leave everything — the stale file included — untouched
	hasSamePkg := false
	for i := range spec.Convs {
		if spec.Convs[i].Kind == "variables" || strings.HasPrefix(spec.Convs[i].OutFile, "./same_") {
			hasSamePkg = true
		}
		if spec.Convs[i].Guarded || spec.Convs[i].GuardedDecl {
			// without the build tag a guarded declaration is not selected at all
			hasSamePkg = false
			break
		}
	}
	if hasSamePkg && n >= 2 && spec.Tag == "" && spec.TagList == "" {
		for k := 0; k < 2; k++ {
			bad := v2.Clone()
			di := rng.IntN(n)
			bad.Convs[di].Defect = stageFor(&bad.Convs[di], []string{"conversion", "signature", "directive"}[rng.IntN(3)])
			mk := func(setup bool, expect string) Op {
				g := &GenSpec{Setup: setup, Expect: expect, Plan: planIdentity()}
				if k == 0 {
					g.OutputConstraint = strp("")
				} else {
					g.BuildTags = strp("")
				}
				return genOp(g)
			}
			h := &History{World: w1, Loc: rng.IntN(len(locNames))}
			h.Ops = append(h.Ops, mk(true, ""))
			h.Ops = append(h.Ops, editOps("EditTypes+BreakConverters", w1.Files, bad.Render())...)
			op := mk(false, "fail")
			op.Label = fmt.Sprintf("stale-output-visible(%s) defective=%s:%s", []string{"-output-constraint ''", "-build-tags ''"}[k], bad.Convs[di].Name, bad.Convs[di].Defect)
			h.Ops = append(h.Ops, op)
			hs = append(hs, h)
		}
	}
	// (e) success over a longer previous output whose beginning equals the new output (an
	// earlier run emitted more into the file): every output must be written completely
	for k := 0; k < 3; k++ {
		h := &History{World: w1, Loc: rng.IntN(len(locNames))}
		h.Ops = append(h.Ops, setup())
		h.Ops = append(h.Ops, Op{Kind: "corrupt", Label: "LongerPreviousOutput", Content: "append-junk", N: k, Path: "0"})
		op := genOp(&GenSpec{Expect: "ok", Plan: planIdentity()})
		op.Label = "success-over-longer-previous-output"
		h.Ops = append(h.Ops, op)
		hs = append(hs, h)
	}
	// (f) one of several patterns selects nothing that can be loaded (a misspelt directory, an
	// import path typo, an empty directory): the run fails and changes nothing, wherever the
	// pattern stands
	for k, bad := range []string{"./tpyo-does-not-exist", w1.Module + "/no/such/pkg", "./emptydir"} {
		h := &History{World: w1, Loc: rng.IntN(len(locNames))}
		h.Ops = append(h.Ops, setup())
		h.Ops = append(h.Ops, editOps("EditTypes", w1.Files, v2.Render())...)
		if bad == "./emptydir" {
			h.Ops = append(h.Ops, Op{Kind: "write", Label: "EmptyDir", Path: "emptydir/README.txt", Content: "no go files here\n", Input: true})
		}
		pats := append([]string{}, w1.Patterns...)
		at := []int{0, len(pats) / 2, len(pats)}[k%3]
		pats = append(pats[:at], append([]string{bad}, pats[at:]...)...)
		op := genOp(&GenSpec{Expect: "fail", Plan: planIdentity(), Patterns: pats, Canon: w1.Patterns})
		op.Label = "unloadable-pattern " + bad
		h.Ops = append(h.Ops, op)
		hs = append(hs, h)
	}
	// (c) argv
	for i := 0; i < nArgv; i++ {
		h := &History{World: w1, Loc: rng.IntN(len(locNames))}
		if rng.IntN(2) == 0 {
			h.Ops = append(h.Ops, setup())
			h.Ops = append(h.Ops, editOps("EditTypes", w1.Files, v2.Render())...)
		}
		h.Ops = append(h.Ops, genOp(&GenSpec{Argv: DrawArgv(rng, w1), Plan: planIdentity()}))
		hs = append(hs, h)
	}
	// (g) success from a clean tree (no earlier run created any directory): both versions of
	// the healthy spec; every output file must be there, directories created as needed
	for k, sp := range []*LSpec{spec, v2} {
		h := &History{World: w1, Loc: rng.IntN(len(locNames))}
		if k == 1 {
			h.Ops = append(h.Ops, editOps("EditTypes", w1.Files, v2.Render())...)
		}
		g := &GenSpec{Expect: "ok", Plan: planIdentity(), Spec: sp}
		if k == 1 {
			g.Plan = planAll("perm", 0, rng.Uint64())
		}
		op := genOp(g)
		op.Label = "success-from-clean-tree"
		h.Ops = append(h.Ops, op)
		hs = append(hs, h)
	}
	return hs, nil
}

// sharedFunctionWorld: two converters of one package name the same custom function; it is
// usable for the first (output in the declaring package, an unexported function is fine there)
// and not for the second (output in ./generated: "must be exported"). The run must fail
// whatever the first converter made of the function.
func sharedFunctionWorld(validFirst bool) *World {
	a, b := "Aconv", "Bconv"
	if !validFirst {
		a, b = "Zconv", "Bconv"
	}
	src := fmt.Sprintf(`package sharedfn

// goverter:converter
// goverter:output:file ./same_%[1]s_gen.go
// goverter:output:package %[3]s/sharedfn
// goverter:extend extLocal
type %[1]s interface {
	Conv(source In) Out
}

// goverter:converter
// goverter:extend extLocal
type %[2]s interface {
	Conv(source In) Out
}

func extLocal(v Raw) Cooked { return Cooked(v) }

type Raw int
type Cooked int
type In struct{ A Raw }
type Out struct{ A Cooked }
`, a, b, DefaultModule)
	return &World{Name: "shared-custom-function", Module: DefaultModule, Files: map[string]string{"sharedfn/c.go": src}, Patterns: []string{"./sharedfn"}, Tags: []string{"c17-static"}}
}

// CheckC17 runs the fault enumeration.
func CheckC17(c *Ctx) (*Outcome, error) {
	nWorlds, nDisk, nArgv := 24, 8, 6
	if c.Tier == "thorough" {
		nWorlds, nDisk, nArgv = 300, 120, 16
	}
	note := c.noteObs("c17aux")
	only := -1
	if v := os.Getenv("VERIF_C17_ONLY"); v != "" {
		fmt.Sscan(v, &only)
	}
	mk := func(i int) ([]*History, error) {
		if only >= 0 && i != only {
			return nil, nil
		}
		rng := c.Rng("c17-world", i)
		var spec *LSpec
		for try := 0; ; try++ {
			spec = DrawLayout(rng, 2+rng.IntN(3), LayoutOpts{UserPkgs: true, Guarded: rng.IntN(3) == 0, UnsafeZero: true})
			if !hasPathConflict(spec) {
				break
			}
		}
		if i%3 == 0 {
			// every interface converter of the first package goes to the package's default
			// file: a shared output file is guaranteed
			for k := range spec.Convs {
				if spec.Convs[k].Kind == "interface" {
					spec.Convs[k].Dir = spec.Convs[0].Dir
					spec.Convs[k].OutFile, spec.Convs[k].OutPkg, spec.Convs[k].ExtIn = "", "", ""
				}
			}
		}
		if i%4 == 1 {
			// two interface converters of one package write into sibling directories of which
			// one name is a string prefix of the other (./gen next to the default ./generated),
			// neither existing before the first run
			var idx []int
			for k := range spec.Convs {
				if spec.Convs[k].Kind == "interface" && !spec.Convs[k].GuardedDecl {
					idx = append(idx, k)
				}
			}
			if len(idx) >= 2 {
				a, b := &spec.Convs[idx[0]], &spec.Convs[idx[1]]
				b.Dir = a.Dir
				a.OutFile, a.OutPkg, a.ExtIn = "", "", ""
				b.OutFile, b.OutPkg, b.ExtIn = "./gen/"+strings.ToLower(b.Name)+".go", "", ""
				if hasPathConflict(spec) {
					return nil, nil
				}
				c.Stats.Add("c17.prefix_sibling_worlds", 1)
			}
		}
		if i%4 == 2 && len(spec.LineDirectives) == 0 {
			// the first converter is declared in a file that another generator emitted
			k0 := &spec.Convs[0]
			spec.ForeignHeader = map[string]bool{path.Join(k0.Dir, k0.File): true}
			c.Stats.Add("c17.foreign_header_worlds", 1)
		}
		hs, err := C17Cases(c, rng, spec, i < nDisk, nArgv)
		if err != nil {
			return nil, err
		}
		c.Stats.Add("worlds", 1)
		if i < 3 {
			c.Stats.Sample(map[string]any{"world_convs": spec.Convs, "first_cases": describeSome(hs, 3)}, 6)
		}
		return hs, nil
	}
	found, err := c.RunCases(nWorlds, mk, JudgeC17, func(h *History, obs []*Obs) {
		note(h, obs)
		for _, o := range obs {
			g := h.Ops[o.OpIndex].Gen
			if g.Setup {
				continue
			}
			key := fmt.Sprintf("%s|%s|%v|%v|%s", h.World.Hash(), h.Ops[o.OpIndex].Label, g.Plan.Faults, g.Argv, g.Expect)
			if g.Expect == "fail" || len(o.FaultsFired) > 0 || g.Argv != nil {
				c.Stats.Distinct("c17.nontrivial", key)
			}
		}
	})
	if err != nil {
		return nil, err
	}
	// static worlds: one custom function named by two converters, usable for only one of them
	fs, err := c.RunCases(2, func(i int) ([]*History, error) {
		w := sharedFunctionWorld(i == 0)
		var hs []*History
		for _, pre := range []bool{false, true} {
			h := &History{World: w, Loc: i}
			if pre {
				// over a stale output of the converter that can be generated
				h.Ops = append(h.Ops, Op{Kind: "write", Label: "StaleOutput", Path: "sharedfn/generated/generated.go", Content: "// Code generated by github.com/jmattheis/goverter, DO NOT EDIT.\n//go:build !goverter\n\npackage generated\n\nfunc stale() {}\n"})
			}
			op := genOp(&GenSpec{Expect: "fail", Plan: planIdentity()})
			op.Label = fmt.Sprintf("shared-custom-function(valid-first=%v)", i == 0)
			h.Ops = append(h.Ops, op)
			hs = append(hs, h)
		}
		c.Stats.Add("worlds", 1)
		return hs, nil
	}, JudgeC17, note)
	if err != nil {
		return nil, err
	}
	found = append(found, fs...)
	out, err := c.finish("C17", "fault_enumeration", found, JudgeC17, func(c *Ctx, f Found) string {
		lab := ""
		if f.V.OpIndex < len(f.H.Ops) {
			op := f.H.Ops[f.V.OpIndex]
			if op.Gen != nil && len(op.Gen.Plan.Faults) > 0 {
				lab = ":" + op.Gen.Plan.Faults[0].Kind
			}
		}
		return f.V.Class + lab
	})
	if err != nil {
		return nil, err
	}
	out.Coverage = map[string]any{
		"rule":            "per world: every non-empty subset of converters made defective at a drawn stage (exhaustive for <=4 converters) over pre-existing outputs and changed healthy inputs; every mutating disk call of the fault-free run x every fault kind, from a clean tree and over earlier outputs; success runs from a clean tree (directories created as needed, incl. sibling output directories whose names are string prefixes of each other) judged against the layout spec, not against the program's own run; drawn CLI argument vectors. Non-trivial = a defective subset, a fired disk fault, or an argv case; distinct = distinct (world hash, defective set+stages, fault attachment, argv, expectation) tuples, counted",
		"exhaustive_note": "exhaustive per world over converter subsets (n<=4) and over (disk call x fault kind); worlds themselves are sampled",
	}
	return out, nil
}

func describeSome(hs []*History, n int) []any {
	var out []any
	for i := 0; i < len(hs) && i < n; i++ {
		out = append(out, DescribeOps(hs[i]))
	}
	return out
}

// hasPathConflict: two converters route to one file with different package identities
// (the run must then fail — that is C15's subject; C17 worlds avoid it).
func hasPathConflict(s *LSpec) bool {
	ids := map[string]string{}
	for i := range s.Convs {
		p := s.Predict(&s.Convs[i])
		if id, ok := ids[p.Path]; ok && id != p.PkgID {
			return true
		}
		ids[p.Path] = p.PkgID
	}
	return false
}
