package gensim

import (
	"fmt"
	"os"
	"math/rand/v2"
	"sort"
	"strings"
	"time"

	"verif/internal/rt/verifsim"
)

// Outcome of a check run.
type Outcome struct {
	Property string
	Level    string
	Found    []Found // minimised
	Replays  []string
	Coverage map[string]any
	Assume   []string
}

type sizes struct {
	corpus, templates, combos, nRandom, histories int
}

func c09Sizes(tier string) sizes {
	if tier == "thorough" {
		return sizes{corpus: 100000, templates: 30, combos: 120, nRandom: 24, histories: 600}
	}
	return sizes{corpus: 70, templates: 4, combos: 16, nRandom: 5, histories: 48}
}

// C09Worlds assembles the worlds for the check: a seeded sample of the scenario corpus,
// parametric templates, and combinations of corpus scenarios in one module.
func C09Worlds(c *Ctx, sz sizes) ([]*World, error) {
	corpus, err := LoadScenarios(c.Node.RepoDir)
	if err != nil {
		return nil, &InfraError{Msg: "scenarios: " + err.Error()}
	}
	rng := c.Rng("c09-worlds", 0)
	var ws []*World
	pick := append([]*World(nil), corpus...)
	rng.Shuffle(len(pick), func(i, j int) { pick[i], pick[j] = pick[j], pick[i] })
	if len(pick) > sz.corpus {
		pick = pick[:sz.corpus]
	}
	sort.Slice(pick, func(i, j int) bool { return pick[i].Name < pick[j].Name })
	ws = append(ws, pick...)
	for i := 0; i < sz.templates; i++ {
		for ti, t := range Templates {
			w := t(c.Rng("c09-template", i*100+ti))
			w.Name = fmt.Sprintf("%s#%d", w.Name, i)
			ws = append(ws, w)
		}
	}
	for i := 0; i < sz.templates*3; i++ {
		r := c.Rng("c09-layout-world", i)
		spec := DrawLayout(r, 1+r.IntN(4), LayoutOpts{UserPkgs: true, Guarded: true, CustomTags: true, GuardedUser: true, Symlinks: true, Common: true})
		if hasPathConflict(spec) {
			continue
		}
		w := spec.World(fmt.Sprintf("layout#%d", i))
		ws = append(ws, w)
	}
	// systematic layout coverage (a seeded subset at the quick tier)
	cov := CoverageSpecs()
	rng.Shuffle(len(cov), func(i, j int) { cov[i], cov[j] = cov[j], cov[i] })
	// the combinations in which the working directory and an existing package both matter
	// come first, so that the quick tier always has them
	sort.SliceStable(cov, func(i, j int) bool {
		pri := func(s *LSpec) int {
			p := 0
			if strings.HasPrefix(s.Convs[0].OutFile, "@cwd/") {
				p += 2
			}
			if len(s.UserPkgs) > 0 {
				p++
			}
			return -p
		}
		return pri(cov[i]) < pri(cov[j])
	})
	nCov := 24
	if c.Tier == "thorough" {
		nCov = len(cov)
	}
	for i := 0; i < nCov && i < len(cov); i++ {
		ws = append(ws, cov[i].World(fmt.Sprintf("coverage#%d", i)))
	}
	// several converters that fail at the same stage, in different packages and output files:
	// which failure is reported must not depend on map order or on the order of packages
	// "multiname" (a goverter:variables value spec with two names) exists for variables blocks
	// only; it is not part of `stages`, whose length C17's draws depend on
	for si, st := range append(append([]string{}, stages...), "multiname") {
		s := &LSpec{UserPkgs: map[string]string{}, PkgNames: map[string]string{"svc/conv": "conv", "api/conv": "conv", "a": "a"}}
		for ci, d := range []string{"svc/conv", "a", "api/conv"} {
			kind := "interface"
			if (ci == 1 && st != "marker" && st != "render") || st == "multiname" {
				kind = "variables"
			}
			s.Convs = append(s.Convs, LConv{Dir: d, File: "conv.go", Kind: kind, Name: fmt.Sprintf("D%c%d", 'a'+ci, si), Version: 1, Defect: st})
		}
		dw := s.World("defects-" + st)
		if st == "multiname" {
			// several source files per package: the loader parses them concurrently, so anything
			// that depends on the order in which they enter the file set shows between runs
			for _, d := range []string{"svc/conv", "a", "api/conv"} {
				for k := 0; k < 5; k++ {
					dw.Files[fmt.Sprintf("%s/extra%d.go", d, k)] = fmt.Sprintf("package %s\n\n%stype Extra%d struct{ A, B int }\n", s.PkgNames[d], strings.Repeat("// filler line\n", 3+17*k), k)
				}
			}
		}
		ws = append(ws, dw)
	}
	// package directories whose names extend each other as strings (api, api/v1, apiext):
	// recursive patterns and their order must select the same packages (recursiveFirstVariants)
	{
		s := &LSpec{UserPkgs: map[string]string{}, PkgNames: map[string]string{"api": "api", "api/v1": "v1", "apiext": "apiext"}}
		for ci, d := range []string{"api", "api/v1", "apiext"} {
			s.Convs = append(s.Convs, LConv{Dir: d, File: "conv.go", Kind: "interface", Name: fmt.Sprintf("P%c", 'a'+ci), Version: 1})
		}
		ws = append(ws, s.World("prefix-sibling-packages"))
	}
	// a directory sits where one of several output files belongs (prior tree state): the run
	// fails at that file; what it reports and which other files it wrote must not follow map order
	for k := 0; k < 3; k++ {
		s := &LSpec{UserPkgs: map[string]string{}, PkgNames: map[string]string{"svc/conv": "conv", "api/conv": "conv", "a": "a"}}
		for ci, d := range []string{"svc/conv", "a", "api/conv"} {
			s.Convs = append(s.Convs, LConv{Dir: d, File: "conv.go", Kind: "interface", Name: fmt.Sprintf("O%c", 'a'+ci), Version: 1})
		}
		w := s.World(fmt.Sprintf("obstructed-output#%d", k))
		w.Files[s.Predict(&s.Convs[k]).Path+"/keep.txt"] = "a directory, not a file\n"
		ws = append(ws, w)
	}
	for i := 0; i < sz.combos && len(corpus) > 2; i++ {
		r := c.Rng("c09-combo", i)
		k := 2 + r.IntN(2)
		var parts []*World
		for j := 0; j < k; j++ {
			if r.IntN(4) == 0 {
				parts = append(parts, Templates[r.IntN(len(Templates))](r))
			} else {
				parts = append(parts, corpus[r.IntN(len(corpus))])
			}
		}
		var names []string
		for _, p := range parts {
			names = append(names, p.Name)
		}
		w := Combine(parts, "combo("+strings.Join(names, "+")+")")
		ws = append(ws, w)
	}
	return ws, nil
}

func (c *Ctx) noteObs(prefix string) func(h *History, obs []*Obs) {
	return func(h *History, obs []*Obs) {
		for _, o := range obs {
			g := h.Ops[o.OpIndex].Gen
			nonid := false
			for _, e := range o.Events {
				if e.T == "range" {
					c.Stats.Add(fmt.Sprintf("reach.range_site.%d", e.Site), 1)
					if e.NonID {
						nonid = true
						c.Stats.Add(fmt.Sprintf("reach.range_site_nonid.%d", e.Site), 1)
					}
				}
				if e.T == "disk" && e.Fault != "" {
					c.Stats.Add("fault_fired."+e.Fault, 1)
				}
				if e.T == "ambient" {
					c.Stats.Add("ambient."+e.What, 1)
				}
			}
			if o.Crashed {
				c.Stats.Add("crashes", 1)
			}
			prior := len(o.PriorOutputs) > 0
			if nonid || len(o.FaultsFired) > 0 || prior {
				key := fmt.Sprintf("%s|%s|%v|%s|%v|%v|%s|%d|%d", h.World.Hash(), hashInputs(o.Inputs), g.Plan.Order, strings.Join(o.FaultsFired, ","), prior, g.Patterns, g.Cwd, h.Loc, g.Plan.Seed)
				c.Stats.Distinct(prefix+".nontrivial", key)
			}
			if prior {
				c.Stats.Add("gens_over_prior_outputs", 1)
			}
		}
	}
}

func hashInputs(m map[string]string) string {
	w := &World{Files: m}
	return w.Hash()
}

// CheckC09 runs the C09 exploration.
func CheckC09(c *Ctx) (*Outcome, error) {
	sz := c09Sizes(c.Tier)
	worlds, err := C09Worlds(c, sz)
	if err != nil {
		return nil, err
	}
	c.Stats.Add("worlds", int64(len(worlds)))
	note := c.noteObs("c09")
	// phase A: per world — identity run to learn reached sites, then the plan schedule
	mk := func(i int) ([]*History, error) {
		w := worlds[i]
		rng := c.Rng("c09-world-cases", i)
		ref, err := c.Ref(w.Module, withGoMod(w), RefOpts{Globals: w.Globals, BuildTags: w.BuildTags, OutputConstraint: w.OutputConstraint, Patterns: w.Patterns})
		if err != nil {
			return nil, err
		}
		var reached []int
		for s := range ref.RangeReach() {
			reached = append(reached, s)
		}
		sort.Ints(reached)
		if ref.Exit == 0 {
			c.Stats.Add("worlds_ok", 1)
		} else {
			c.Stats.Add("worlds_failing", 1)
		}
		for _, t := range w.Tags {
			c.Stats.Add("world_tag."+t, 1)
		}
		c.Stats.Sample(map[string]any{"world": w.Name, "ref_exit": ref.Exit, "sites_reached_with_2plus_entries": reached, "patterns": w.Patterns}, 6)
		return C09Cases(c, w, rng, reached, sz.nRandom), nil
	}
	found, err := c.RunCases(len(worlds), mk, JudgeC09, note)
	if err != nil {
		return nil, err
	}
	// phase B: histories
	hmk := func(i int) ([]*History, error) {
		rng := c.Rng("c09-history", i)
		h := DrawHistory(c, rng, HistoryOpts{MaxSteps: 4, Faults: true, Corrupt: true, Relocate: true, EnvVariants: true, RandomOrder: true, TornHeader: rng.IntN(2) == 0,
			Layout: LayoutOpts{UserPkgs: true, Guarded: true, CustomTags: true, GuardedUser: true, Symlinks: true, Common: true}})
		if i < 4 {
			c.Stats.Sample(map[string]any{"history_ops": DescribeOps(h)}, 10)
		}
		return []*History{h}, nil
	}
	f2, err := c.RunCases(sz.histories, hmk, JudgeC09, note)
	if err != nil {
		return nil, err
	}
	found = append(found, f2...)
	nCrash, nDrop := 18, 8
	if c.Tier == "thorough" {
		nCrash, nDrop = 120, 80
	}
	fd, err := c.RunCases(nDrop, func(i int) ([]*History, error) {
		return []*History{NameThenDrop(c.Rng("c09-name-then-drop", i))}, nil
	}, JudgeC09, note)
	if err != nil {
		return nil, err
	}
	found = append(found, fd...)
	fc, err := c.RunCases(nCrash, func(i int) ([]*History, error) {
		rng := c.Rng("c09-crash-shrink", i)
		return []*History{CrashThenShrink(rng, i%6, []string{"crash-before", "crash-after", "crash-torn"}[(i/6)%3])}, nil
	}, JudgeC09, note)
	if err != nil {
		return nil, err
	}
	found = append(found, fc...)
	f3, err := c.RunCases(1, func(int) ([]*History, error) { return []*History{F9Probe()}, nil }, JudgeC09, note)
	if err != nil {
		return nil, err
	}
	found = append(found, f3...)
	return c.finish("C09", "exploration", found, JudgeC09, keyC09)
}

func withGoMod(w *World) map[string]string {
	m := copyMap(w.Files)
	if _, ok := m["go.mod"]; !ok {
		m["go.mod"] = "module " + w.Module + "\ngo 1.18\n"
	}
	return m
}

// keyC09 names the specific cause of a minimised C09 violation.
func keyC09(c *Ctx, f Found) string {
	if strings.Contains(f.V.Class, "/") {
		return f.V.Class // the class itself names the specific state
	}
	gi := f.V.OpIndex
	if s := CulpritSite(f.H, gi); s >= 0 {
		return f.V.Class + ":site=" + c.SiteKey(s)
	}
	if gi < len(f.H.Ops) && f.H.Ops[gi].Gen != nil {
		g := f.H.Ops[gi].Gen
		var dims []string
		if g.Plan.Order.Mode != "" && g.Plan.Order.Mode != "identity" {
			dims = append(dims, "map-order(several sites)")
		}
		if g.Plan.Goroutines != "" && g.Plan.Goroutines != "native" {
			dims = append(dims, "goroutine-schedule("+g.Plan.Goroutines+")")
		}
		if g.Patterns != nil {
			dims = append(dims, "pattern-order")
		}
		if g.Cwd != "" && g.Cwd != "chdir" {
			dims = append(dims, "cwd-form")
		}
		if f.H.Loc != 0 {
			dims = append(dims, "location")
		}
		if len(f.H.Ops) > 1 {
			dims = append(dims, "history")
		}
		if len(dims) == 0 {
			dims = append(dims, "repeat")
		}
		return f.V.Class + ":env=" + strings.Join(dims, "+")
	}
	return f.V.Class
}

// finish minimises, deduplicates by key, writes replay files and assembles coverage.
func (c *Ctx) finish(prop, level string, found []Found, judge Judge, keyFn func(*Ctx, Found) string) (*Outcome, error) {
	out := &Outcome{Property: prop, Level: level}
	sort.SliceStable(found, func(i, j int) bool {
		return len(found[i].H.Ops) < len(found[j].H.Ops)
	})
	seenKey := map[string]bool{}
	budget := 40 * time.Second
	maxShrink := 12
	for _, f := range found {
		if maxShrink == 0 {
			break
		}
		// cheap pre-key to avoid shrinking hundreds of duplicates
		pre := f.V.Class + "|" + f.H.World.Name + "|" + fmt.Sprint(len(f.H.Ops))
		if f.V.OpIndex < len(f.H.Ops) && f.H.Ops[f.V.OpIndex].Gen != nil {
			g := f.H.Ops[f.V.OpIndex].Gen
			pre += "|" + g.Plan.Goroutines + "|" + g.Plan.Order.Mode + fmt.Sprint(g.Plan.Order.Sites) + "|" + fmt.Sprint(len(g.Plan.Faults))
		}
		if seenKey["pre:"+pre] {
			continue
		}
		seenKey["pre:"+pre] = true
		min, log := f, []string{"(shrinking disabled)"}
		if os.Getenv("VERIF_NOSHRINK") == "" {
			min, log = c.Shrink(f, judge, budget)
		}
		maxShrink--
		min.V.Key = prop + ":" + keyFn(c, min)
		if min.Native {
			min.V.Key = prop + ":" + min.V.Class + ":env=native-nondeterminism(outside the seams)"
		}
		if seenKey[min.V.Key] {
			continue
		}
		seenKey[min.V.Key] = true
		rp := &Replay{Property: prop, Class: min.V.Class, Msg: min.V.Msg, Key: min.V.Key, Engine: "gensim", Seed: c.Seed,
			SiteNames: c.SiteNames(), History: min.H, Minimised: true, ShrinkLog: log, Native: min.Native}
		p, err := c.WriteReplay(rp)
		if err != nil {
			return nil, &InfraError{Msg: err.Error()}
		}
		out.Found = append(out.Found, min)
		out.Replays = append(out.Replays, p)
	}
	c.Stats.Add("violations_raw", int64(len(found)))
	return out, nil
}

var _ = rand.Uint64
var _ = verifsim.Plan{}

// refOK: does the clean-tree reference of the world succeed?
func (c *Ctx) refOK(w *World) bool {
	ref, err := c.Ref(w.Module, withGoMod(w), RefOpts{Globals: w.Globals, BuildTags: w.BuildTags, OutputConstraint: w.OutputConstraint, Patterns: w.Patterns})
	return err == nil && ref.Exit == 0
}
