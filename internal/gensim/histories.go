package gensim

import (
	"fmt"
	"math/rand/v2"
	"sort"
	"strings"

	"verif/internal/rt/verifsim"
)

type HistoryOpts struct {
	MaxSteps    int
	Faults      bool
	Corrupt     bool
	Relocate    bool
	EnvVariants bool
	RandomOrder bool
	Layout      LayoutOpts
	OnlyLayout  bool
	// TornHeader allows corruptions that destroy the header (premise then fails; such
	// states are counted as observations).
	TornHeader bool
}

// editOps turns a change of the input set into primitive file ops.
func editOps(label string, old, new map[string]string) []Op {
	var ops []Op
	var paths []string
	for p := range new {
		paths = append(paths, p)
	}
	sort.Strings(paths)
	for _, p := range paths {
		if old[p] != new[p] {
			ops = append(ops, Op{Kind: "write", Label: label, Path: p, Content: new[p], Input: true})
		}
	}
	paths = paths[:0]
	for p := range old {
		if _, ok := new[p]; !ok {
			paths = append(paths, p)
		}
	}
	sort.Strings(paths)
	for _, p := range paths {
		ops = append(ops, Op{Kind: "remove", Label: label, Path: p, Input: true})
	}
	return ops
}

var tornLens = []int{0, 1, 10, 40, 66, 67, 68, 75, 87, 88, 89, 120, 400, -1, -2}

func drawFault(rng *rand.Rand, crashOnly bool) verifsim.Fault {
	kinds := []string{"crash-before", "crash-after", "crash-torn", "crash-torn", "err", "create-then-err", "short", "partial-mkdir"}
	if crashOnly {
		kinds = kinds[:4]
	}
	f := verifsim.Fault{Call: rng.IntN(5), Kind: kinds[rng.IntN(len(kinds))]}
	f.Err = []string{"ENOSPC", "EACCES", "EIO", "EROFS"}[rng.IntN(4)]
	if f.Kind == "crash-torn" || f.Kind == "short" {
		f.N = tornLens[rng.IntN(len(tornLens))]
	}
	return f
}

var corruptKinds = []string{"delete", "garbage", "trunc-body", "append-junk", "stale-keep", "nul-body"}

// DrawHistory draws one history: an initial generation, then disturbances (input edits,
// corrupted or torn outputs, crashed or failing runs, relocation) each followed by a
// checked fault-free generation in a drawn environment and map order.
func DrawHistory(c *Ctx, rng *rand.Rand, o HistoryOpts) *History {
	var (
		spec    *LSpec
		w       *World
		corpus  []*World
		canon   []string
		globals []string
	)
	kind := rng.IntN(10)
	if o.OnlyLayout {
		kind = 0
	}
	switch {
	case kind < 6:
		spec = DrawLayout(rng, 1+rng.IntN(4), o.Layout)
		w = spec.World("layout")
	case kind < 8:
		w = Templates[rng.IntN(len(Templates))](rng)
	default:
		corpus, _ = LoadScenarios(c.Node.RepoDir)
		if len(corpus) == 0 {
			w = T8(rng)
		} else {
			w = corpus[rng.IntN(len(corpus))].Clone()
		}
	}
	canon = w.Patterns
	globals = w.Globals
	if globals == nil {
		globals = []string{}
	}
	h := &History{World: w, Loc: rng.IntN(len(locNames))}
	cur := withDefaultGoMod(w.Module, w.Files)

	checkedGen := func() Op {
		g := &GenSpec{Plan: planIdentity(), Canon: canon, Globals: globals}
		if spec != nil {
			g.Spec = spec
			g.Expect = "ok"
			for i := range spec.Convs {
				if spec.Convs[i].Defect != "" {
					g.Expect = "fail"
				}
			}
			if hasPathConflict(spec) {
				g.Expect = "fail"
			}
		}
		if o.RandomOrder && rng.IntN(4) != 0 {
			g.Plan = planAll([]string{"perm", "perm", "reverse", "rotate"}[rng.IntN(4)], 1+rng.IntN(3), rng.Uint64())
		}
		if o.EnvVariants {
			tmp := &World{Module: w.Module, Patterns: canon}
			envVariant(rng, g, tmp)
			g.Umask = []int{0, 0o022, 0o027, 0o077, 0o002}[rng.IntN(5)]
		} else {
			g.Patterns = canon
		}
		return genOp(g)
	}
	h.Ops = append(h.Ops, checkedGen())
	steps := 1 + rng.IntN(o.MaxSteps)
	for s := 0; s < steps; s++ {
		choice := rng.IntN(8)
		switch {
		case choice == 0 && spec != nil: // EditTypes
			spec = spec.Bump()
			nw := withDefaultGoMod(w.Module, spec.Render())
			h.Ops = append(h.Ops, editOps("EditTypes", cur, nw)...)
			cur = nw
		case choice == 1 && spec != nil: // Break / Heal converters
			spec = spec.Clone()
			label := "BreakConverters"
			anyDefect := false
			for i := range spec.Convs {
				if spec.Convs[i].Defect != "" {
					anyDefect = true
				}
			}
			if anyDefect && rng.IntN(2) == 0 {
				label = "HealConverters"
				for i := range spec.Convs {
					spec.Convs[i].Defect = ""
				}
			} else {
				for i := range spec.Convs {
					if rng.IntN(2) == 0 {
						spec.Convs[i].Defect = []string{"directive", "signature", "conversion", "methoddirective"}[rng.IntN(4)]
					}
				}
			}
			nw := withDefaultGoMod(w.Module, spec.Render())
			h.Ops = append(h.Ops, editOps(label, cur, nw)...)
			cur = nw
		case choice == 1 && corpus != nil: // switch to another version of the input (another scenario)
			nwW := corpus[rng.IntN(len(corpus))]
			nw := withDefaultGoMod(nwW.Module, nwW.Files)
			h.Ops = append(h.Ops, editOps("SwitchInput("+nwW.Name+")", cur, nw)...)
			cur = nw
			canon = nwW.Patterns
			globals = nwW.Globals
			if globals == nil {
				globals = []string{}
			}
		case choice == 2 && o.Corrupt:
			how := corruptKinds[rng.IntN(len(corruptKinds))]
			if o.TornHeader && rng.IntN(3) == 0 {
				how = "trunc-header"
			}
			h.Ops = append(h.Ops, Op{Kind: "corrupt", Label: "Corrupt", Content: how, N: rng.IntN(8), Path: fmt.Sprint(rng.IntN(1000))})
		case choice == 3 && o.Faults: // crashed or failing run
			g := checkedGen().Gen
			g.Plan.Faults = []verifsim.Fault{drawFault(rng, false)}
			if !o.TornHeader && (g.Plan.Faults[0].Kind == "crash-torn" || g.Plan.Faults[0].Kind == "short" || g.Plan.Faults[0].Kind == "create-then-err") {
				// keep the header: tear only behind line 2
				if g.Plan.Faults[0].Kind == "create-then-err" {
					g.Plan.Faults[0].Kind = "err"
				} else {
					g.Plan.Faults[0].N = []int{120, 200, 400, -1, -2}[rng.IntN(5)]
				}
			}
			h.Ops = append(h.Ops, genOp(g))
		case choice == 6 && spec != nil: // ShrinkOutput: the new output is a strict shortening
			spec = spec.Shorten()
			nw := withDefaultGoMod(w.Module, spec.Render())
			h.Ops = append(h.Ops, editOps("ShrinkOutput", cur, nw)...)
			cur = nw
		case choice == 4 && o.Relocate:
			h.Ops = append(h.Ops, Op{Kind: "relocate", Label: "Relocate", N: rng.IntN(3)})
		case choice == 5 && spec != nil && len(spec.Convs) > 0: // ChangeLayout
			spec = spec.Clone()
			i := rng.IntN(len(spec.Convs))
			if spec.Convs[i].Kind == "interface" {
				spec.Convs[i].OutFile = []string{"", "./moved/" + strings.ToLower(spec.Convs[i].Name) + ".go", "@cwd/moved/" + strings.ToLower(spec.Convs[i].Name) + ".go"}[rng.IntN(3)]
				spec.Convs[i].OutPkg = ""
				alignShared(spec, i)
			}
			nw := withDefaultGoMod(w.Module, spec.Render())
			h.Ops = append(h.Ops, editOps("ChangeLayout", cur, nw)...)
			cur = nw
		default:
			// plain repetition
		}
		h.Ops = append(h.Ops, checkedGen())
	}
	return h
}

// DescribeOps renders a history's op list compactly (for evidence samples).
func DescribeOps(h *History) []string {
	var out []string
	for _, op := range h.Ops {
		switch op.Kind {
		case "gen":
			g := op.Gen
			s := fmt.Sprintf("gen order=%s", g.Plan.Order.Mode)
			if g.Plan.Order.Sites != nil {
				s += fmt.Sprintf(" sites=%v", g.Plan.Order.Sites)
			}
			if g.Cwd != "" {
				s += " cwd=" + g.Cwd
			}
			if g.Patterns != nil {
				s += fmt.Sprintf(" patterns=%v", g.Patterns)
			}
			if g.Umask != 0 {
				s += fmt.Sprintf(" umask=%03o", g.Umask)
			}
			if g.Gomaxprocs != 0 {
				s += fmt.Sprintf(" GOMAXPROCS=%d", g.Gomaxprocs)
			}
			for _, f := range g.Plan.Faults {
				s += fmt.Sprintf(" fault@call%d=%s(n=%d,%s)", f.Call, f.Kind, f.N, f.Err)
			}
			if g.Argv != nil {
				s = fmt.Sprintf("run argv=%q", g.Argv)
			}
			out = append(out, s)
		case "write", "remove":
			out = append(out, fmt.Sprintf("%s %s [%s]", op.Kind, op.Path, op.Label))
		case "corrupt":
			out = append(out, fmt.Sprintf("corrupt output#%d how=%s", op.N, op.Content))
		default:
			out = append(out, fmt.Sprintf("%s n=%d [%s]", op.Kind, op.N, op.Label))
		}
	}
	return out
}

// alignShared gives converter k the output:package text of a peer that selects the same
// file (converters sharing a file must agree on the package).
func alignShared(spec *LSpec, k int) {
	for j := range spec.Convs {
		if j != k && spec.Convs[j].Kind == "interface" && spec.Predict(&spec.Convs[j]).Path == spec.Predict(&spec.Convs[k]).Path {
			spec.Convs[k].OutPkg = spec.Convs[j].OutPkg
			return
		}
	}
}

// withDefaultGoMod returns a copy of the input set that always carries a go.mod (a world
// without its own gets the default one), so that switching input versions never removes it.
func withDefaultGoMod(module string, files map[string]string) map[string]string {
	m := copyMap(files)
	if _, ok := m["go.mod"]; !ok {
		m["go.mod"] = "module " + module + "\ngo 1.18\n"
	}
	return m
}

// F9Probe is the fixed history of known finding F9 (DESIGN §7): generate, replace the body of
// the first output (everything after its two header lines) by garbage, regenerate in the
// settled file-age regime. C09 and C16 run it on every invocation so that the KNOWN-FINDING
// line is printed exactly as long as the finding exists.
func F9Probe() *History {
	spec := &LSpec{UserPkgs: map[string]string{}, PkgNames: map[string]string{"a": "a"},
		Convs: []LConv{{Dir: "a", File: "conv.go", Kind: "interface", Name: "Ka", Version: 1}, {Dir: "a", File: "conv.go", Kind: "variables", Name: "Lo", Version: 1}}}
	w := spec.World("f9-probe")
	g := func() *GenSpec {
		return &GenSpec{Plan: planIdentity(), Spec: spec, Expect: "ok", Canon: w.Patterns, Globals: []string{}}
	}
	return &History{World: w, Ops: []Op{
		genOp(g()),
		{Kind: "corrupt", Label: "Corrupt", Content: "garbage", N: 0, Path: "0"},
		genOp(g()),
	}}
}

// CrashThenShrink is the systematic family "a run dies at disk call k, then the input changes
// so that the outputs get shorter, then one fault-free regeneration": leftovers of the dead
// run (torn or complete files, temp files) must not reach the regenerated bytes.
func CrashThenShrink(rng *rand.Rand, k int, kind string) *History {
	spec := DrawLayout(rng, 1+rng.IntN(3), LayoutOpts{UserPkgs: true})
	w := spec.World("crash-then-shrink")
	short := spec.Shorten()
	gen := func(sp *LSpec, faults []verifsim.Fault, setup bool) Op {
		g := &GenSpec{Plan: planIdentity(), Spec: sp, Expect: "ok", Canon: w.Patterns, Globals: []string{}, Setup: setup}
		g.Plan.Faults = faults
		return genOp(g)
	}
	f := verifsim.Fault{Call: k, Kind: kind, N: []int{120, 400, -1, -2}[rng.IntN(4)], Err: "ENOSPC"}
	h := &History{World: w, Loc: rng.IntN(len(locNames))}
	if rng.IntN(2) == 0 {
		h.Ops = append(h.Ops, gen(spec, nil, true))
	}
	h.Ops = append(h.Ops, gen(spec, []verifsim.Fault{f}, false))
	h.Ops = append(h.Ops, editOps("ShrinkOutput", withDefaultGoMod(w.Module, w.Files), withDefaultGoMod(w.Module, short.Render()))...)
	h.Ops = append(h.Ops, gen(short, nil, false))
	return h
}

// CorruptEveryOutput enumerates prior states systematically: for a layout world, every
// previously generated file k is damaged in every way (deleted, garbage from line 4,
// truncated behind the header at several offsets, truncated inside the header, junk
// appended), in both file-age regimes, and one regeneration must follow. nOutputs is an upper
// bound of outputs; indices beyond the actual number wrap around.
func CorruptEveryOutput(rng *rand.Rand, lopts LayoutOpts, nOutputs int) []*History {
	return CorruptEveryOutputTag(rng, lopts, nOutputs, "")
}

// CorruptEveryOutputTag: the same enumeration with the given build tag (and its negation as
// output constraint) instead of a drawn one; "" keeps what DrawLayout drew.
func CorruptEveryOutputTag(rng *rand.Rand, lopts LayoutOpts, nOutputs int, tag string) []*History {
	spec := DrawLayout(rng, 1+rng.IntN(3), lopts)
	for hasPathConflict(spec) {
		spec = DrawLayout(rng, 1+rng.IntN(3), lopts)
	}
	if tag != "" {
		spec.Tag, spec.TagList = tag, ""
	}
	w := spec.World("corrupt-every-output")
	bumped := spec.Bump()
	var hs []*History
	kinds := []struct {
		how string
		m   int
	}{{"delete", 0}, {"garbage", 0}, {"trunc-body", 0}, {"trunc-body", 1}, {"trunc-body", 9}, {"trunc-body", 60}, {"trunc-header", 0}, {"trunc-header", 30}, {"trunc-header", 70}, {"append-junk", 0}, {"nul-body", 0}}
	for k := 0; k < nOutputs; k++ {
		for _, kd := range kinds {
			for _, age := range []string{"", "fresh"} {
				for _, edit := range []bool{false, true} {
					if edit && age == "fresh" {
						continue
					}
					cur := spec
					h := &History{World: w, Loc: rng.IntN(len(locNames))}
					mk := func(sp *LSpec, setup bool) Op {
						g := &GenSpec{Plan: planIdentity(), Spec: sp, Expect: "ok", Canon: w.Patterns, Globals: w.Globals, FileAge: age, Setup: setup}
						if g.Globals == nil {
							g.Globals = []string{}
						}
						return genOp(g)
					}
					h.Ops = append(h.Ops, mk(cur, true))
					if edit {
						h.Ops = append(h.Ops, editOps("EditTypes", withDefaultGoMod(w.Module, w.Files), withDefaultGoMod(w.Module, bumped.Render()))...)
						cur = bumped
					}
					h.Ops = append(h.Ops, Op{Kind: "corrupt", Label: "Corrupt", Content: kd.how, N: k, Path: fmt.Sprint(kd.m)})
					h.Ops = append(h.Ops, mk(cur, false))
					hs = append(hs, h)
				}
			}
		}
	}
	return hs
}

// NameThenDrop: an earlier run wrote an output with an explicit package name, the name is
// then removed from the settings; the stale file (same path, old clause) must not decide the
// new package clause.
func NameThenDrop(rng *rand.Rand) *History {
	var spec *LSpec
	for {
		spec = DrawLayout(rng, 1+rng.IntN(3), LayoutOpts{UserPkgs: rng.IntN(2) == 0})
		ok := false
		for i := range spec.Convs {
			if spec.Convs[i].Kind == "interface" && strings.Contains(spec.Convs[i].OutPkg, ":") {
				ok = true
			}
		}
		if ok && !hasPathConflict(spec) {
			break
		}
	}
	w := spec.World("name-then-drop")
	dropped := spec.Clone()
	for i := range dropped.Convs {
		c := &dropped.Convs[i]
		if c.Kind == "interface" && strings.Contains(c.OutPkg, ":") {
			c.OutPkg = strings.SplitN(c.OutPkg, ":", 2)[0] // keep the path, drop the name
		}
	}
	g := func(sp *LSpec, setup bool) Op {
		return genOp(&GenSpec{Plan: planIdentity(), Spec: sp, Expect: "ok", Canon: w.Patterns, Globals: []string{}, Setup: setup})
	}
	h := &History{World: w, Loc: rng.IntN(len(locNames))}
	h.Ops = append(h.Ops, g(spec, true))
	h.Ops = append(h.Ops, editOps("DropPackageName", withDefaultGoMod(w.Module, w.Files), withDefaultGoMod(w.Module, dropped.Render()))...)
	h.Ops = append(h.Ops, g(dropped, false))
	return h
}
