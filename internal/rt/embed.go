// Package rt carries the verifsim runtime sources so that the driver can copy them into
// scratch modules.
package rt

import (
	"embed"
	"os"
	"path/filepath"
	"strings"
)

//go:embed verifsim/*.go
var files embed.FS

// WriteRuntime writes the runtime as a stand-alone module `verifsim` into dir.
func WriteRuntime(dir string) error {
	if err := os.MkdirAll(dir, 0o755); err != nil {
		return err
	}
	ents, err := files.ReadDir("verifsim")
	if err != nil {
		return err
	}
	for _, e := range ents {
		if strings.HasSuffix(e.Name(), "_test.go") {
			continue
		}
		b, err := files.ReadFile("verifsim/" + e.Name())
		if err != nil {
			return err
		}
		if err := os.WriteFile(filepath.Join(dir, e.Name()), b, 0o644); err != nil {
			return err
		}
	}
	return os.WriteFile(filepath.Join(dir, "go.mod"), []byte("module verifsim\n\ngo 1.23\n"), 0o644)
}
