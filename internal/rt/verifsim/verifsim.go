// Package verifsim is the simulation runtime that /verif's rewriter links into a scratch
// copy of goverter (and into generated converter code). It is stdlib-only and is copied
// verbatim into every scratch module.
//
// One JSON plan (file named by VERIF_PLAN) decides everything the simulator owns in this
// process: map iteration order per range site, the simulated clock / pid / hostname, and
// which disk call fails, tears or crashes. One JSON-lines event log (VERIF_LOG) records
// what was reached. No PRNG draw and no clock read ever happens on a logging path.
package verifsim

import (
	"encoding/json"
	"fmt"
	"hash/fnv"
	"iter"
	"math/rand/v2"
	"os"
	"sort"
	"sync"
	"time"
)

// Plan is the whole configuration of the simulator for one process.
type Plan struct {
	Seed  uint64    `json:"seed"`
	Order OrderPlan `json:"order"`
	// Faults are attached to the k-th mutating disk call of the process (0-based).
	Faults []Fault `json:"faults,omitempty"`
	// Clock is the simulated wall clock (unix seconds) handed out by Now(); it advances by
	// one second per read so that two reads never tie.
	Clock int64  `json:"clock,omitempty"`
	// Goroutines: native (default) | inline | deferred — see goroutines.go.
	Goroutines string `json:"goroutines,omitempty"`
	Pid        int    `json:"pid,omitempty"`
	Host  string `json:"host,omitempty"`
}

// OrderPlan selects the iteration order at each map-range site.
//
//	Mode identity : canonical sorted key order
//	Mode reverse  : canonical order reversed
//	Mode rotate   : canonical order rotated left by K (mod n)
//	Mode perm     : permutation drawn from PCG(Seed, site, visit)
//
// Sites == nil perturbs every site; otherwise only the listed sites are perturbed and all
// others stay in identity order. PerSite overrides Mode/K for single sites.
type OrderPlan struct {
	Mode    string               `json:"mode"`
	K       int                  `json:"k,omitempty"`
	Sites   []int                `json:"sites,omitempty"`
	PerSite map[string]SiteOrder `json:"per_site,omitempty"`
}

type SiteOrder struct {
	Mode string `json:"mode"`
	K    int    `json:"k,omitempty"`
}

type Fault struct {
	Call int    `json:"call"`
	Kind string `json:"kind"` // err | create-then-err | short | crash-before | crash-after | crash-torn | partial-mkdir
	N    int    `json:"n,omitempty"`
	Err  string `json:"err,omitempty"` // ENOSPC | EACCES | EIO | EROFS
}

var (
	initOnce sync.Once
	plan     Plan
	siteSet  map[int]bool
	logFile  *os.File
	mu       sync.Mutex
	visits   = map[int]int{}
	clockN   int64
)

func setup() {
	initOnce.Do(func() {
		plan.Order.Mode = "identity"
		if p := os.Getenv("VERIF_PLAN"); p != "" {
			b, err := os.ReadFile(p)
			if err != nil {
				fmt.Fprintln(os.Stderr, "verifsim: cannot read plan:", err)
				os.Exit(97)
			}
			if err := json.Unmarshal(b, &plan); err != nil {
				fmt.Fprintln(os.Stderr, "verifsim: bad plan:", err)
				os.Exit(97)
			}
		}
		if plan.Order.Mode == "" {
			plan.Order.Mode = "identity"
		}
		if plan.Order.Sites != nil {
			siteSet = map[int]bool{}
			for _, s := range plan.Order.Sites {
				siteSet[s] = true
			}
		}
		if p := os.Getenv("VERIF_LOG"); p != "" {
			f, err := os.OpenFile(p, os.O_CREATE|os.O_WRONLY|os.O_APPEND, 0o644)
			if err != nil {
				fmt.Fprintln(os.Stderr, "verifsim: cannot open log:", err)
				os.Exit(97)
			}
			logFile = f
		}
		logEvent(map[string]any{"t": "start", "seed": plan.Seed, "order": plan.Order.Mode, "faults": len(plan.Faults)})
	})
}

// SetPlan installs a plan programmatically (used by in-process harnesses such as convsim,
// where there is no plan file). It must be called before any other function.
func SetPlan(p Plan) {
	initOnce.Do(func() {})
	mu.Lock()
	defer mu.Unlock()
	plan = p
	if plan.Order.Mode == "" {
		plan.Order.Mode = "identity"
	}
	siteSet = nil
	if plan.Order.Sites != nil {
		siteSet = map[int]bool{}
		for _, s := range plan.Order.Sites {
			siteSet[s] = true
		}
	}
	visits = map[int]int{}
}

// logEvent writes one JSON line, unbuffered, so that a simulated crash loses nothing.
func logEvent(ev map[string]any) {
	if logFile == nil {
		return
	}
	b, _ := json.Marshal(ev)
	b = append(b, '\n')
	_, _ = logFile.Write(b)
}

func orderFor(site int) (string, int) {
	if so, ok := plan.Order.PerSite[fmt.Sprint(site)]; ok {
		return so.Mode, so.K
	}
	if siteSet != nil && !siteSet[site] {
		return "identity", 0
	}
	return plan.Order.Mode, plan.Order.K
}

type keyed[K any] struct {
	s string
	k K
}

// Seq2 replaces `range m` over a map. The keys are snapshotted and put into a canonical
// order, then the plan's order for (site, n-th visit) is applied. Entries deleted during
// the iteration are not produced (as Go specifies); entries inserted during the iteration
// are not produced either (which Go permits).
func Seq2[M ~map[K]V, K comparable, V any](site int, m M) iter.Seq2[K, V] {
	return func(yield func(K, V) bool) {
		setup()
		n := len(m)
		if n == 0 {
			return
		}
		keys := make([]keyed[K], 0, n)
		for k := range m {
			keys = append(keys, keyed[K]{s: fmt.Sprintf("%#v", k), k: k})
		}
		sort.SliceStable(keys, func(i, j int) bool { return keys[i].s < keys[j].s })

		mu.Lock()
		visit := visits[site]
		visits[site] = visit + 1
		mode, k := orderFor(site)
		mu.Unlock()

		idx := make([]int, n)
		for i := range idx {
			idx[i] = i
		}
		switch mode {
		case "identity":
		case "reverse":
			for i, j := 0, n-1; i < j; i, j = i+1, j-1 {
				idx[i], idx[j] = idx[j], idx[i]
			}
		case "rotate":
			r := ((k % n) + n) % n
			for i := range idx {
				idx[i] = (i + r) % n
			}
		case "perm":
			rng := rand.New(rand.NewPCG(plan.Seed^0x9e3779b97f4a7c15*uint64(site+1), uint64(visit)+1))
			rng.Shuffle(n, func(i, j int) { idx[i], idx[j] = idx[j], idx[i] })
		default:
			fmt.Fprintln(os.Stderr, "verifsim: unknown order mode", mode)
			os.Exit(97)
		}
		if n >= 2 && logFile != nil {
			nonid := false
			h := fnv.New32a()
			for i, x := range idx {
				if x != i {
					nonid = true
				}
				fmt.Fprintf(h, "%d,", x)
			}
			logEvent(map[string]any{"t": "range", "site": site, "n": n, "visit": visit, "nonid": nonid, "h": h.Sum32()})
		}
		for _, i := range idx {
			kk := keys[i].k
			v, ok := m[kk]
			if !ok {
				continue
			}
			if !yield(kk, v) {
				return
			}
		}
	}
}

// Now is the simulated wall clock that replaces time.Now in rewritten code.
func Now() time.Time {
	setup()
	mu.Lock()
	clockN++
	n := clockN
	mu.Unlock()
	base := plan.Clock
	if base == 0 {
		base = 1_700_000_000
	}
	logEvent(map[string]any{"t": "ambient", "what": "time.Now"})
	return time.Unix(base+n, 0).UTC()
}

// Getpid replaces os.Getpid.
func Getpid() int {
	setup()
	logEvent(map[string]any{"t": "ambient", "what": "os.Getpid"})
	if plan.Pid != 0 {
		return plan.Pid
	}
	return 4242
}

// Hostname replaces os.Hostname.
func Hostname() (string, error) {
	setup()
	logEvent(map[string]any{"t": "ambient", "what": "os.Hostname"})
	if plan.Host != "" {
		return plan.Host, nil
	}
	return "simhost", nil
}
