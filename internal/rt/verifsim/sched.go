package verifsim

import (
	"fmt"
	"sync"
)

// Cooperative scheduler hook (convsim, R3). The rewriter inserts Yield(site) before every
// statement of generated code. Outside a simulated run the hook is nil and Yield is a no-op.

var yieldHook func(site int)

// Yield is a preemption point.
func Yield(site int) {
	if h := yieldHook; h != nil {
		h(site)
	}
}

// Sched runs task functions as real goroutines of which exactly one is runnable at any
// time; which one runs next is decided only by Choose.
type Sched struct {
	// Choose picks the next task among the runnable ones (indices into the task list).
	Choose func(runnable []int, step int) int
	// AfterStep is the invariant hook, called after every step with the task that just ran
	// and the site it is parked at (-1 when it finished). A non-nil error aborts the run.
	AfterStep func(step, task, site int) error
	MaxSteps  int

	Trace []Step // (task, site) of every step, for interleaving hashes
}

type Step struct{ Task, Site int }

type taskState struct {
	resume chan struct{}
	done   bool
	site   int
}

type event struct {
	task int
	site int // -1: finished
	pan  any
}

// Run executes the tasks to completion under the scheduler. It returns the first invariant
// error, or an error describing a panic inside a task.
func (s *Sched) Run(tasks []func()) error {
	n := len(tasks)
	st := make([]*taskState, n)
	events := make(chan event)
	current := -1
	var abort bool
	var mu sync.Mutex
	yieldHook = func(site int) {
		mu.Lock()
		c := current
		ab := abort
		mu.Unlock()
		if c < 0 || ab {
			return
		}
		events <- event{task: c, site: site}
		<-st[c].resume
	}
	defer func() { yieldHook = nil }()
	for i := range tasks {
		st[i] = &taskState{resume: make(chan struct{}), site: -2}
		go func(i int) {
			<-st[i].resume
			defer func() {
				r := recover()
				events <- event{task: i, site: -1, pan: r}
			}()
			tasks[i]()
		}(i)
	}
	var firstErr error
	step := 0
	for {
		var runnable []int
		for i, t := range st {
			if !t.done {
				runnable = append(runnable, i)
			}
		}
		if len(runnable) == 0 {
			break
		}
		pick := runnable[0]
		if len(runnable) > 1 && firstErr == nil && (s.MaxSteps == 0 || step < s.MaxSteps) {
			k := s.Choose(runnable, step)
			if k < 0 || k >= len(runnable) {
				k = 0
			}
			pick = runnable[k]
		}
		mu.Lock()
		current = pick
		mu.Unlock()
		st[pick].resume <- struct{}{}
		ev := <-events
		mu.Lock()
		current = -1
		mu.Unlock()
		if ev.task != pick {
			return fmt.Errorf("scheduler: event from task %d while task %d was running", ev.task, pick)
		}
		if ev.site == -1 {
			st[pick].done = true
			if ev.pan != nil && firstErr == nil {
				firstErr = fmt.Errorf("task %d panicked: %v", pick, ev.pan)
			}
		}
		st[pick].site = ev.site
		s.Trace = append(s.Trace, Step{pick, ev.site})
		step++
		if firstErr == nil && s.AfterStep != nil {
			if err := s.AfterStep(step, pick, ev.site); err != nil {
				firstErr = err
				mu.Lock()
				abort = true // let the remaining tasks run to completion without parking
				mu.Unlock()
			}
		}
		if firstErr != nil {
			// drain: resume every parked task until all are done
			mu.Lock()
			abort = true
			mu.Unlock()
		}
	}
	return firstErr
}
