package verifsim

import (
	"math/rand/v2"
	"sync"
	"time"
)

// R5: `go` statements in rewritten code go through Go(). goverter has no goroutines today;
// this seam exists so that a change that introduces them ("generate files in parallel")
// meets a scheduler the simulator owns instead of the Go runtime's.
//
//	Plan.Goroutines ""/"native" : real `go` (uncontrolled; behaviour as shipped)
//	"inline"                    : the function runs to completion at the go statement
//	"deferred"                  : functions are queued and run one at a time, in an order
//	                              drawn from Plan.Seed, at the next join point (WaitGroup.Wait,
//	                              channel receive, select) — Join() is inserted there
//
// Liveness fallback: a queued function that is still not finished 3 s (real time) after a
// join started, or a queue nobody joins for 3 s, is released to the Go scheduler and the
// event is logged ("go-fallback"); such a run is marked and its replay is not guaranteed.

var (
	gmu     sync.Mutex
	goQueue []func()
	goTimer *time.Timer
	joinN   int
)

func goMode() string {
	setup()
	if plan.Goroutines == "" {
		return "native"
	}
	return plan.Goroutines
}

// Go replaces a go statement.
func Go(site int, fn func()) {
	mode := goMode()
	logEvent(map[string]any{"t": "go", "site": site, "what": mode})
	switch mode {
	case "inline":
		fn()
	case "deferred":
		gmu.Lock()
		goQueue = append(goQueue, fn)
		if goTimer == nil {
			goTimer = time.AfterFunc(3*time.Second, func() {
				gmu.Lock()
				q := goQueue
				goQueue = nil
				gmu.Unlock()
				if len(q) > 0 {
					logEvent(map[string]any{"t": "go-fallback", "n": len(q)})
					for _, f := range q {
						go f()
					}
				}
			})
		}
		gmu.Unlock()
	default:
		go fn()
	}
}

// Join is inserted before every statement that may wait for goroutines.
func Join() {
	if goMode() != "deferred" {
		return
	}
	for {
		gmu.Lock()
		q := goQueue
		goQueue = nil
		joinN++
		n := joinN
		if goTimer != nil {
			goTimer.Stop()
			goTimer = nil
		}
		gmu.Unlock()
		if len(q) == 0 {
			return
		}
		rng := rand.New(rand.NewPCG(plan.Seed^0xabcdef, uint64(n)))
		rng.Shuffle(len(q), func(i, j int) { q[i], q[j] = q[j], q[i] })
		logEvent(map[string]any{"t": "join", "n": len(q)})
		for _, f := range q {
			done := make(chan struct{})
			go func() {
				defer close(done)
				f()
			}()
			select {
			case <-done:
			case <-time.After(3 * time.Second):
				logEvent(map[string]any{"t": "go-fallback", "n": 1})
			}
		}
	}
}
