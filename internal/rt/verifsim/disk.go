package verifsim

import (
	"crypto/sha256"
	"encoding/hex"
	"io/fs"
	"os"
	"path/filepath"
	"syscall"
	"time"
)

// The simulated disk is a thin layer over the real scratch directory (a real directory is
// unavoidable: the `go list` child must read it). Every mutating call is numbered, logged
// with its arguments, and may carry one fault from the plan.

var diskCalls int

func errnoOf(name string) error {
	switch name {
	case "EACCES":
		return syscall.EACCES
	case "EIO":
		return syscall.EIO
	case "EROFS":
		return syscall.EROFS
	case "EDQUOT":
		return syscall.EDQUOT
	default:
		return syscall.ENOSPC
	}
}

func nextCall(op, path string, mode fs.FileMode, data []byte) (int, *Fault) {
	setup()
	mu.Lock()
	i := diskCalls
	diskCalls++
	mu.Unlock()
	var f *Fault
	for k := range plan.Faults {
		if plan.Faults[k].Call == i {
			f = &plan.Faults[k]
		}
	}
	ev := map[string]any{"t": "disk", "i": i, "op": op, "path": path, "mode": int(mode)}
	if data != nil {
		s := sha256.Sum256(data)
		ev["len"] = len(data)
		ev["sha"] = hex.EncodeToString(s[:8])
	}
	if f != nil {
		ev["fault"] = f.Kind
		ev["n"] = f.N
		ev["err"] = f.Err
	}
	logEvent(ev)
	return i, f
}

func crash() {
	logEvent(map[string]any{"t": "crash"})
	os.Exit(137)
}

func clampN(n, l int) int {
	if n < 0 {
		n = l + n // negative: counted from the end
	}
	if n < 0 {
		n = 0
	}
	if n > l {
		n = l
	}
	return n
}

func tornWrite(name string, data []byte, perm fs.FileMode, n int) error {
	f, err := os.OpenFile(name, os.O_WRONLY|os.O_CREATE|os.O_TRUNC, perm)
	if err != nil {
		return err
	}
	_, err = f.Write(data[:clampN(n, len(data))])
	if cerr := f.Close(); err == nil {
		err = cerr
	}
	return err
}

// WriteFile replaces os.WriteFile.
func WriteFile(name string, data []byte, perm fs.FileMode) error {
	_, f := nextCall("WriteFile", name, perm, data)
	if f != nil {
		switch f.Kind {
		case "err":
			return &fs.PathError{Op: "open", Path: name, Err: errnoOf(f.Err)}
		case "create-then-err":
			_ = tornWrite(name, data, perm, 0)
			return &fs.PathError{Op: "write", Path: name, Err: errnoOf(f.Err)}
		case "short":
			_ = tornWrite(name, data, perm, f.N)
			return &fs.PathError{Op: "write", Path: name, Err: errnoOf(f.Err)}
		case "crash-before":
			crash()
		case "crash-torn":
			_ = tornWrite(name, data, perm, f.N)
			crash()
		case "crash-after":
			err := os.WriteFile(name, data, perm)
			_ = err
			crash()
		}
	}
	return os.WriteFile(name, data, perm)
}

// MkdirAll replaces os.MkdirAll.
func MkdirAll(path string, perm fs.FileMode) error {
	_, f := nextCall("MkdirAll", path, perm, nil)
	if f != nil {
		switch f.Kind {
		case "err", "create-then-err", "short":
			return &fs.PathError{Op: "mkdir", Path: path, Err: errnoOf(f.Err)}
		case "partial-mkdir":
			// create only the outermost missing ancestor, then fail
			p := filepath.Clean(path)
			var missing []string
			for {
				if _, err := os.Stat(p); err == nil {
					break
				}
				missing = append(missing, p)
				np := filepath.Dir(p)
				if np == p {
					break
				}
				p = np
			}
			if len(missing) > 1 {
				_ = os.Mkdir(missing[len(missing)-1], perm)
			}
			return &fs.PathError{Op: "mkdir", Path: path, Err: errnoOf(f.Err)}
		case "crash-before", "crash-torn":
			crash()
		case "crash-after":
			_ = os.MkdirAll(path, perm)
			crash()
		}
	}
	return os.MkdirAll(path, perm)
}

// The remaining mutating functions of package os are passed through but logged, so that a
// change that starts writing through them is observed at the seam. Faults of kind "err"
// and the crash kinds apply.

func simple(op, path string, mode fs.FileMode) error {
	_, f := nextCall(op, path, mode, nil)
	if f != nil {
		switch f.Kind {
		case "err", "create-then-err", "short", "partial-mkdir":
			return &fs.PathError{Op: op, Path: path, Err: errnoOf(f.Err)}
		case "crash-before", "crash-torn":
			crash()
		}
	}
	return nil
}


func Mkdir(name string, perm fs.FileMode) error {
	if err := simple("Mkdir", name, perm); err != nil {
		return err
	}
	return os.Mkdir(name, perm)
}

// fullDisk models a disk that fills up after the file was created: the real file is
// created/truncated as asked (it stays empty), and the handle the program gets is /dev/full,
// on which open and close succeed and every write fails with ENOSPC.
func fullDisk(name string, flag int, perm fs.FileMode) (*os.File, error) {
	f, err := os.OpenFile(name, flag, perm)
	if err != nil {
		return nil, err
	}
	_ = f.Close()
	return os.OpenFile("/dev/full", os.O_WRONLY, 0)
}

func openFaulty(op, name string, flag int, perm fs.FileMode) (*os.File, bool, error) {
	_, f := nextCall(op, name, perm, nil)
	if f != nil {
		switch f.Kind {
		case "err", "partial-mkdir":
			return nil, true, &fs.PathError{Op: "open", Path: name, Err: errnoOf(f.Err)}
		case "create-then-err", "short", "write-enospc":
			h, err := fullDisk(name, flag, perm)
			return h, true, err
		case "crash-before":
			crash()
		case "crash-torn", "crash-after":
			if h, err := os.OpenFile(name, flag, perm); err == nil {
				_ = h.Close()
			}
			crash()
		}
	}
	return nil, false, nil
}

func Create(name string) (*os.File, error) {
	if h, done, err := openFaulty("Create", name, os.O_RDWR|os.O_CREATE|os.O_TRUNC, 0o666); done {
		return h, err
	}
	return os.Create(name)
}

func OpenFile(name string, flag int, perm fs.FileMode) (*os.File, error) {
	if flag&(os.O_WRONLY|os.O_RDWR|os.O_CREATE|os.O_TRUNC|os.O_APPEND) == 0 {
		return os.OpenFile(name, flag, perm)
	}
	if h, done, err := openFaulty("OpenFile", name, flag, perm); done {
		return h, err
	}
	return os.OpenFile(name, flag, perm)
}

func Remove(name string) error {
	if err := simple("Remove", name, 0); err != nil {
		return err
	}
	return os.Remove(name)
}

func RemoveAll(name string) error {
	if err := simple("RemoveAll", name, 0); err != nil {
		return err
	}
	return os.RemoveAll(name)
}

func Rename(oldpath, newpath string) error {
	if err := simple("Rename", oldpath+" -> "+newpath, 0); err != nil {
		return err
	}
	return os.Rename(oldpath, newpath)
}

func Chmod(name string, mode fs.FileMode) error {
	if err := simple("Chmod", name, mode); err != nil {
		return err
	}
	return os.Chmod(name, mode)
}

func Chtimes(name string, atime, mtime time.Time) error {
	if err := simple("Chtimes", name, 0); err != nil {
		return err
	}
	return os.Chtimes(name, atime, mtime)
}

func Truncate(name string, size int64) error {
	if err := simple("Truncate", name, 0); err != nil {
		return err
	}
	return os.Truncate(name, size)
}

func Symlink(oldname, newname string) error {
	if err := simple("Symlink", newname, 0); err != nil {
		return err
	}
	return os.Symlink(oldname, newname)
}

func Link(oldname, newname string) error {
	if err := simple("Link", newname, 0); err != nil {
		return err
	}
	return os.Link(oldname, newname)
}

func MkdirTemp(dir, pattern string) (string, error) {
	if err := simple("MkdirTemp", dir+"/"+pattern, 0o700); err != nil {
		return "", err
	}
	return os.MkdirTemp(dir, pattern)
}

func CreateTemp(dir, pattern string) (*os.File, error) {
	_, f := nextCall("CreateTemp", dir+"/"+pattern, 0o600, nil)
	if f != nil {
		switch f.Kind {
		case "err", "partial-mkdir":
			return nil, &fs.PathError{Op: "open", Path: dir + "/" + pattern, Err: errnoOf(f.Err)}
		case "create-then-err", "short", "write-enospc":
			h, err := os.CreateTemp(dir, pattern)
			if err != nil {
				return nil, err
			}
			name := h.Name()
			_ = h.Close()
			// the program must still see the temp file's name: hand out a handle on
			// /dev/full through a symlink swap is not possible; instead fill-disk semantics
			// are modelled by replacing the temp file with a symlink to /dev/full
			_ = os.Remove(name)
			if err := os.Symlink("/dev/full", name); err != nil {
				return nil, err
			}
			return os.OpenFile(name, os.O_WRONLY, 0)
		case "crash-before", "crash-torn", "crash-after":
			crash()
		}
	}
	return os.CreateTemp(dir, pattern)
}
