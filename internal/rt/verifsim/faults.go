package verifsim

import (
	"fmt"
	"sort"
	"sync"
)

// Value-keyed failpoints for custom functions (convsim, C07). A fault is identified by
// (function name, identity of the argument), never by call count, so that a plan means
// the same under any map iteration order.

type FaultKey struct {
	Fn string
	ID int
}

func (k FaultKey) String() string { return fmt.Sprintf("%s#%d", k.Fn, k.ID) }

// InjectedError is the error returned by a poisoned custom function.
type InjectedError struct{ Key FaultKey }

func (e *InjectedError) Error() string { return "injected failure in " + e.Key.String() }

var (
	fmu      sync.Mutex
	poisoned = map[FaultKey]bool{}
	reached  = map[FaultKey]int{}
	fired    = map[FaultKey]int{}
	wraps    [][]WrapElem
)

// WrapElem is one recorded path element handed to the user's wrapErrorsUsing package.
type WrapElem struct {
	Kind  string // field | index | key
	Value string
}

// ResetFaults clears plan and recordings.
func ResetFaults(plan []FaultKey) {
	fmu.Lock()
	defer fmu.Unlock()
	poisoned = map[FaultKey]bool{}
	for _, k := range plan {
		poisoned[k] = true
	}
	reached = map[FaultKey]int{}
	fired = map[FaultKey]int{}
	wraps = nil
}

// Poisoned is called by a custom function at entry; it records the call as reached.
func Poisoned(fn string, id int) bool {
	fmu.Lock()
	defer fmu.Unlock()
	k := FaultKey{fn, id}
	reached[k]++
	if poisoned[k] {
		fired[k]++
		return true
	}
	return false
}

// Inject returns the error for a poisoned call.
func Inject(fn string, id int) error { return &InjectedError{Key: FaultKey{fn, id}} }

// ReachedCalls lists the custom-function invocations reached since the last reset, sorted.
func ReachedCalls() []FaultKey {
	fmu.Lock()
	defer fmu.Unlock()
	out := make([]FaultKey, 0, len(reached))
	for k := range reached {
		out = append(out, k)
	}
	sort.Slice(out, func(i, j int) bool {
		if out[i].Fn != out[j].Fn {
			return out[i].Fn < out[j].Fn
		}
		return out[i].ID < out[j].ID
	})
	return out
}

// FiredCalls lists the poisoned invocations that actually happened.
func FiredCalls() []FaultKey {
	fmu.Lock()
	defer fmu.Unlock()
	out := make([]FaultKey, 0, len(fired))
	for k := range fired {
		out = append(out, k)
	}
	sort.Slice(out, func(i, j int) bool {
		if out[i].Fn != out[j].Fn {
			return out[i].Fn < out[j].Fn
		}
		return out[i].ID < out[j].ID
	})
	return out
}

// RecordWrap is called by the harness-supplied wrapErrorsUsing package for every Wrap call.
func RecordWrap(elems []WrapElem) {
	fmu.Lock()
	wraps = append(wraps, elems)
	fmu.Unlock()
}

// Wraps returns the recorded Wrap calls in call order (innermost first).
func Wraps() [][]WrapElem {
	fmu.Lock()
	defer fmu.Unlock()
	return append([][]WrapElem(nil), wraps...)
}
