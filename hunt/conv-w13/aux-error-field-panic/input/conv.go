package errfield

// goverter:converter
// goverter:output:file ./gen.go
// goverter:output:package example.com/errfield
type Converter interface {
	Convert(source Result) APIResult
}

type Result struct {
	ID  string
	Err error
}
type APIResult struct {
	ID  string
	Err error
}
