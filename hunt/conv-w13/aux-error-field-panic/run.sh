#!/bin/sh
# OUT OF SCOPE for C04/C07 (robustness observation): a struct field of the predeclared type `error`
# that goverter cannot convert makes the generator panic (nil *types.Package in xtype.loadEnum)
# instead of printing the usual TypeMismatch diagnostic.
# exit 1 = panic present, exit 0 = clean diagnostic or successful generation
export GOFLAGS=-mod=mod GOPROXY=off GOSUMDB=off GOTOOLCHAIN=local
here=$(cd "$(dirname "$0")" && pwd)
root=$(cd "$here/../.." && pwd)
tmp=$(mktemp -d /tmp/hunt-errfield.XXXXXX)
trap 'rm -rf "$tmp"' EXIT
(cd "$root" && go build -o "$tmp/goverter" ./cmd/goverter) || { echo "cannot build goverter"; exit 2; }
cp -r "$here/input" "$tmp/mod"
cd "$tmp/mod" || exit 2
"$tmp/goverter" gen . >"$tmp/out.log" 2>&1
rc=$?
head -12 "$tmp/out.log"
if grep -q "^panic:" "$tmp/out.log"; then
	echo "--- generator panicked (rc=$rc)"
	exit 1
fi
echo "ok: no panic (rc=$rc)"
exit 0
