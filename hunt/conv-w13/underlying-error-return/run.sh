#!/bin/sh
# C07: useUnderlyingTypeMethods + fallible extend on the underlying types, target is a named basic type.
# exit 1 = violation present (generated code does not compile / error not propagated), exit 0 = ok
export GOFLAGS=-mod=mod GOPROXY=off GOSUMDB=off GOTOOLCHAIN=local
here=$(cd "$(dirname "$0")" && pwd)
root=$(cd "$here/../.." && pwd)
tmp=$(mktemp -d /tmp/hunt-underlying.XXXXXX)
trap 'rm -rf "$tmp"' EXIT
(cd "$root" && go build -o "$tmp/goverter" ./cmd/goverter) || { echo "cannot build goverter"; exit 2; }
cp -r "$here/input" "$tmp/mod"
cd "$tmp/mod" || exit 2
if ! "$tmp/goverter" gen . ; then
	echo "goverter refused to generate (acceptable for C07, no violation)"
	exit 0
fi
echo "--- generated:"; cat gen.go
if ! go vet . >"$tmp/vet.log" 2>&1 || ! go test . >"$tmp/test.log" 2>&1; then
	echo "--- VIOLATION: goverter exited 0 but the generated error path is broken:"
	cat "$tmp/vet.log" "$tmp/test.log" 2>/dev/null
	exit 1
fi
echo "ok: generated code compiles and propagates the error"
exit 0
