package ages

import "testing"

// Compiles only when the generated code compiles; then checks C07 behaviour.
func TestErrorPropagates(t *testing.T) {
	c := &ConverterImpl{}
	if _, err := c.Convert(In{Min: "1", Max: "abc"}); err == nil {
		t.Fatal("error of ParseInt was dropped")
	}
	out, err := c.Convert(In{Min: "1", Max: "22"})
	if err != nil || out.Min != 1 || out.Max != 22 {
		t.Fatalf("unexpected result %+v %v", out, err)
	}
}
