package ages

import "strconv"

// goverter:converter
// goverter:output:file ./gen.go
// goverter:output:package example.com/ages
// goverter:useUnderlyingTypeMethods
// goverter:extend ParseInt
type Converter interface {
	Convert(source In) (Out, error)
}

type RawAge string
type Age int

type In struct {
	Min RawAge
	Max RawAge
}
type Out struct {
	Min Age
	Max Age
}

func ParseInt(s string) (int, error) { return strconv.Atoi(s) }
