module example.com/ages

go 1.18
