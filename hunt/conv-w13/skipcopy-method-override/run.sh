#!/bin/sh
# C04: converter-level skipCopySameType, disabled again on one method ("goverter:skipCopySameType no").
# The sub-methods generated for that method still skip the copy, so its result shares memory with the source.
# exit 1 = violation present, exit 0 = ok
export GOFLAGS=-mod=mod GOPROXY=off GOSUMDB=off GOTOOLCHAIN=local
here=$(cd "$(dirname "$0")" && pwd)
root=$(cd "$here/../.." && pwd)
tmp=$(mktemp -d /tmp/hunt-skipcopy.XXXXXX)
trap 'rm -rf "$tmp"' EXIT
(cd "$root" && go build -o "$tmp/goverter" ./cmd/goverter) || { echo "cannot build goverter"; exit 2; }
cp -r "$here/input" "$tmp/mod"
cd "$tmp/mod" || exit 2
if ! "$tmp/goverter" gen . ; then
	echo "goverter refused to generate (no violation of C04)"
	exit 0
fi
echo "--- generated:"; cat gen.go
if ! go test . >"$tmp/test.log" 2>&1; then
	echo "--- VIOLATION: result of DeepCopy (skipCopySameType no) shares memory with the source:"
	cat "$tmp/test.log"
	exit 1
fi
echo "ok: DeepCopy result shares nothing with the source"
exit 0
