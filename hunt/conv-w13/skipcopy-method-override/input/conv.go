package deep

// goverter:converter
// goverter:output:file ./gen.go
// goverter:output:package example.com/deep
// goverter:skipCopySameType
type Converter interface {
	// Shallow is fine for this one.
	Fast(source []Geo) []Geo
	// goverter:skipCopySameType no
	DeepCopy(source In) Out
}

type Address struct {
	Lines []string
	Geo   *Geo
}
type Geo struct{ Lat, Lon float64 }

type In struct {
	Name    string
	Tags    []string
	Address Address
	Prev    *Address
}
type Out struct {
	Name    string
	Tags    []string
	Address Address
	Prev    *Address
}
