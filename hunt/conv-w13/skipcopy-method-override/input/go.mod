module example.com/deep

go 1.18
