package deep

import "testing"

// DeepCopy is declared with "goverter:skipCopySameType no": neither skipCopySameType nor a
// custom function is involved, so the result must not share mutable memory with the source.
func TestDeepCopyDoesNotShare(t *testing.T) {
	c := &ConverterImpl{}
	in := In{
		Name:    "n",
		Tags:    []string{"a"},
		Address: Address{Lines: []string{"l1"}, Geo: &Geo{Lat: 1}},
		Prev:    &Address{Lines: []string{"p1"}, Geo: &Geo{Lat: 2}},
	}
	out := c.DeepCopy(in)
	if out.Prev == in.Prev {
		t.Errorf("out.Prev is the same pointer as in.Prev")
	}
	if out.Address.Geo == in.Address.Geo {
		t.Errorf("out.Address.Geo is the same pointer as in.Address.Geo")
	}
	out.Tags[0] = "changed"
	out.Address.Lines[0] = "changed"
	out.Prev.Lines[0] = "changed"
	out.Address.Geo.Lat = 99
	if in.Tags[0] != "a" {
		t.Errorf("source Tags modified through result")
	}
	if in.Address.Lines[0] != "l1" {
		t.Errorf("source Address.Lines modified through result: %v", in.Address.Lines)
	}
	if in.Prev.Lines[0] != "p1" {
		t.Errorf("source Prev.Lines modified through result: %v", in.Prev.Lines)
	}
	if in.Address.Geo.Lat != 1 {
		t.Errorf("source Address.Geo modified through result")
	}
}
