package arrfield

import "strconv"

func Atoi(s string) (int, error) { return strconv.Atoi(s) }

type In struct {
	Name string
	RGB  [3]int
}
type Out struct {
	Name string
	RGB  []int
}

type InS struct {
	RGB [3]string
}
type OutS struct {
	RGB []int
}

// goverter:converter
// goverter:output:file ./generated.go
// goverter:output:package example.com/arrfield
// goverter:extend Atoi
type Converter interface {
	Convert(source In) Out
	// fallible variant (C07: "if none fails it returns a nil error together with the normal result")
	ConvertS(source InS) (OutS, error)
}
