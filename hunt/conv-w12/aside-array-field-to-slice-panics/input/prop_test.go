package arrfield

import "testing"

func TestArrayFieldFallible(t *testing.T) {
	out, err := (&ConverterImpl{}).ConvertS(InS{RGB: [3]string{"1", "2", "3"}})
	if err != nil || len(out.RGB) != 3 || out.RGB[2] != 3 {
		t.Fatalf("unexpected %v %v", out.RGB, err)
	}
}

func TestArrayField(t *testing.T) {
	out := (&ConverterImpl{}).Convert(In{Name: "x", RGB: [3]int{1, 2, 3}})
	if len(out.RGB) != 3 || out.RGB[2] != 3 {
		t.Fatalf("unexpected %v", out.RGB)
	}
}
