module example.com/arrfield

go 1.18
