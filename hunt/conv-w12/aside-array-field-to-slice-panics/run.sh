#!/bin/sh
# ASIDE (not C04/C07): array -> slice conversion of a struct FIELD (or slice element). List.Assign
# skips the `make` for fixed size sources (builder/list.go: `if source.ListFixed { return forStmt }`),
# only List.Build allocates. The generated method indexes into a nil slice and panics at run time.
set -u
HERE="$(cd "$(dirname "$0")" && pwd)"
ROOT="$(cd "$HERE/../.." && pwd)"
export GOPROXY=off GOSUMDB=off GOTOOLCHAIN=local
WORK="$(mktemp -d /tmp/hunt-w12-XXXXXX)"
trap 'rm -rf "$WORK"' EXIT
(cd "$ROOT" && GOFLAGS=-mod=mod go build -o "$WORK/goverter" ./cmd/goverter) || { echo "cannot build goverter"; exit 2; }
mkdir "$WORK/mod" && cp -r "$HERE/input/." "$WORK/mod/" && cd "$WORK/mod" || exit 2
export GOFLAGS=

"$WORK/goverter" gen . || { echo "goverter refused (acceptable)"; exit 0; }
if ! go test . >"$WORK/test.log" 2>&1; then
	echo "BUG: generated converter panics:"; head -12 "$WORK/test.log"
	grep -n -B1 -A3 'len(source.RGB)' generated.go
	exit 1
fi
echo "OK"
exit 0
