package unsafeptr

import "unsafe"

// Handle is e.g. a cgo / syscall buffer descriptor.
type Handle struct {
	Len int
	Buf unsafe.Pointer
	P   *int
}
type HandleOut struct {
	Len int
	Buf unsafe.Pointer
	P   *int
}

// goverter:converter
// goverter:output:file ./generated.go
// goverter:output:package example.com/unsafeptr
type Converter interface {
	Convert(source Handle) HandleOut
}
