module example.com/unsafeptr

go 1.18
