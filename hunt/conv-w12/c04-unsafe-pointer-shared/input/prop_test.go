package unsafeptr

import (
	"testing"
	"unsafe"
)

func TestDeepCopy(t *testing.T) {
	buf := [4]byte{1, 2, 3, 4}
	n := 7
	in := Handle{Len: 4, Buf: unsafe.Pointer(&buf), P: &n}
	out := (&ConverterImpl{}).Convert(in)

	if out.P == in.P {
		t.Fatalf("*int shared") // control: typed pointers are re-addressed
	}
	if out.Buf != nil && out.Buf == in.Buf {
		// mutate through the result, observe through the source
		(*[4]byte)(out.Buf)[0] = 99
		t.Fatalf("pointer target shared between source and result (no skipCopySameType, no custom function): source buffer now %v", buf)
	}
}
