#!/bin/sh
# C04: an unsafe.Pointer field is handled by the Basic builder (types.UnsafePointer is a
# *types.Basic kind) and assigned directly: target.Buf = source.Buf. The pointer target is
# then reachable from source and result without skipCopySameType or a custom function.
set -u
HERE="$(cd "$(dirname "$0")" && pwd)"
ROOT="$(cd "$HERE/../.." && pwd)"
export GOPROXY=off GOSUMDB=off GOTOOLCHAIN=local
WORK="$(mktemp -d /tmp/hunt-w12-XXXXXX)"
trap 'rm -rf "$WORK"' EXIT
(cd "$ROOT" && GOFLAGS=-mod=mod go build -o "$WORK/goverter" ./cmd/goverter) || { echo "cannot build goverter"; exit 2; }
mkdir "$WORK/mod" && cp -r "$HERE/input/." "$WORK/mod/" && cd "$WORK/mod" || exit 2
export GOFLAGS=

if ! "$WORK/goverter" gen . >"$WORK/gen.log" 2>&1; then
	echo "goverter refused to convert unsafe.Pointer (acceptable):"; cat "$WORK/gen.log"
	exit 0
fi
if ! go test . >"$WORK/test.log" 2>&1; then
	echo "VIOLATION:"; cat "$WORK/test.log"
	grep -n 'Buf' generated.go
	exit 1
fi
echo "OK"
exit 0
