#!/bin/sh
# C07 (wrapErrors clause): a failing custom function for a map entry inside struct field
# "Limits" is returned completely unwrapped: the enclosing method adds neither the field
# name nor anything else, although with wrapErrors each enclosing method is supposed to add the
# innermost field name or index it was setting.
set -u
HERE="$(cd "$(dirname "$0")" && pwd)"
ROOT="$(cd "$HERE/../.." && pwd)"
export GOPROXY=off GOSUMDB=off GOTOOLCHAIN=local
WORK="$(mktemp -d /tmp/hunt-w12-XXXXXX)"
trap 'rm -rf "$WORK"' EXIT
(cd "$ROOT" && GOFLAGS=-mod=mod go build -o "$WORK/goverter" ./cmd/goverter) || { echo "cannot build goverter"; exit 2; }
mkdir "$WORK/mod" && cp -r "$HERE/input/." "$WORK/mod/" && cd "$WORK/mod" || exit 2
export GOFLAGS=

"$WORK/goverter" gen . || { echo "generation failed unexpectedly"; exit 2; }
if ! go test . >"$WORK/test.log" 2>&1; then
	echo "VIOLATION:"; cat "$WORK/test.log"
	echo "--- generated code for field Limits:"
	grep -n -A12 'source.Limits != nil' generated.go
	exit 1
fi
echo "OK"
exit 0
