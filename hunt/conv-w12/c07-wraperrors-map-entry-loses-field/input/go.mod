module example.com/wrapmap

go 1.18
