package wrapmap

import (
	"strings"
	"testing"
)

func TestWrap(t *testing.T) {
	c := &ConverterImpl{}
	// control: failing slice element -> the enclosing method adds the innermost index
	_, err := c.Convert(In{Ports: []string{"1", "x"}})
	if err == nil || !strings.Contains(err.Error(), "error setting index 1") {
		t.Fatalf("slice control failed: %v", err)
	}
	// failing map entry of field Limits: the innermost field name or index that Convert
	// was setting is the field "Limits"
	_, err = c.Convert(In{Limits: map[string]string{"cpu": "x"}})
	if err == nil {
		t.Fatalf("error dropped")
	}
	if !strings.Contains(err.Error(), "error setting field Limits") {
		t.Fatalf("wrapErrors added no location at all for a failing map entry of field Limits: %q", err.Error())
	}
}
