package wrapmap

import "strconv"

func Atoi(s string) (int, error) { return strconv.Atoi(s) }

type In struct {
	Name   string
	Limits map[string]string
	Ports  []string
}
type Out struct {
	Name   string
	Limits map[string]int
	Ports  []int
}

// goverter:converter
// goverter:output:file ./generated.go
// goverter:output:package example.com/wrapmap
// goverter:extend Atoi
// goverter:wrapErrors
type Converter interface {
	Convert(source In) (Out, error)
}
