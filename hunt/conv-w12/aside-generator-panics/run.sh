#!/bin/sh
# ASIDE (not C04/C07): two inputs on which the generator panics (Go stack trace, exit 2)
#  a) goverter:update + `goverter:map Field | Func` where Func takes no source argument:
#     nil *xtype.Type dereference in builder.shouldCheckAgainstZero (builder/struct.go:124/150)
#  b) []unsafe.Pointer: xtype.toCodeBasic has no case for types.UnsafePointer (xtype/tocode.go:167)
set -u
HERE="$(cd "$(dirname "$0")" && pwd)"
ROOT="$(cd "$HERE/../.." && pwd)"
export GOPROXY=off GOSUMDB=off GOTOOLCHAIN=local
WORK="$(mktemp -d /tmp/hunt-w12-XXXXXX)"
trap 'rm -rf "$WORK"' EXIT
(cd "$ROOT" && GOFLAGS=-mod=mod go build -o "$WORK/goverter" ./cmd/goverter) || { echo "cannot build goverter"; exit 2; }
export GOFLAGS=
rc=0
for v in a b; do
	mkdir "$WORK/$v" && cp -r "$HERE/input-$v/." "$WORK/$v/" && cd "$WORK/$v" || exit 2
	"$WORK/goverter" gen . >"$WORK/$v.log" 2>&1
	if grep -q '^panic:' "$WORK/$v.log"; then
		echo "BUG ($v): generator panicked:"; head -8 "$WORK/$v.log"
		rc=1
	else
		echo "OK ($v)"
	fi
done
exit $rc
