module example.com/panicb

go 1.18
