package panicb

import "unsafe"

type In struct{ Bufs []unsafe.Pointer }
type Out struct{ Bufs []unsafe.Pointer }

// goverter:converter
// goverter:output:file ./generated.go
// goverter:output:package example.com/panicb
type Converter interface {
	Convert(source In) Out
}
