module example.com/panica

go 1.18
