package panica

import "time"

func Now() time.Time { return time.Now() }

type In struct{ Name string }
type Out struct {
	Name    string
	Updated time.Time
}

// goverter:converter
// goverter:output:file ./generated.go
// goverter:output:package example.com/panica
type Converter interface {
	// goverter:update target
	// goverter:map Updated | Now
	Update(source In, target *Out)
}
