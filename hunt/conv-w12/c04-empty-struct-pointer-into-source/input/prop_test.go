package emptyptr

import (
	"testing"
	"unsafe"
)

func TestNoPointerIntoSource(t *testing.T) {
	in := In{Rows: make([]struct {
		N    int
		Flag struct{}
	}, 2)}
	out := (&ConverterImpl{}).Convert(in)
	lo := uintptr(unsafe.Pointer(&in.Rows[0]))
	hi := lo + 2*unsafe.Sizeof(in.Rows[0])
	for i := range out.Rows {
		p := uintptr(unsafe.Pointer(out.Rows[i].Flag))
		if p >= lo && p < hi {
			t.Fatalf("out.Rows[%d].Flag (%#x) points into the backing array of in.Rows [%#x,%#x)", i, p, lo, hi)
		}
	}
}
