module example.com/emptyptr

go 1.18
