package emptyptr

type In struct {
	Rows []struct {
		N    int
		Flag struct{}
	}
}
type Out struct {
	Rows []struct {
		N    int
		Flag *struct{}
	}
}

// goverter:converter
// goverter:output:file ./generated.go
// goverter:output:package example.com/emptyptr
type Converter interface {
	Convert(source In) Out
}
