#!/bin/sh
# C04 (low severity): struct{} -> *struct{} inside an unnamed struct element: Struct.Build has an
# "optimization for golang sets" that returns the source expression unchanged as a *variable* id,
# TargetPointer then takes its address: target.Rows[i].Flag = &source.Rows[i].Flag.
# The result holds interior pointers into the slice backing array of the source (the pointee is
# zero sized, so nothing can be mutated through it, but the pointer target is reachable from
# both values and keeps the source array alive).
set -u
HERE="$(cd "$(dirname "$0")" && pwd)"
ROOT="$(cd "$HERE/../.." && pwd)"
export GOPROXY=off GOSUMDB=off GOTOOLCHAIN=local
WORK="$(mktemp -d /tmp/hunt-w12-XXXXXX)"
trap 'rm -rf "$WORK"' EXIT
(cd "$ROOT" && GOFLAGS=-mod=mod go build -o "$WORK/goverter" ./cmd/goverter) || { echo "cannot build goverter"; exit 2; }
mkdir "$WORK/mod" && cp -r "$HERE/input/." "$WORK/mod/" && cd "$WORK/mod" || exit 2
export GOFLAGS=

"$WORK/goverter" gen . || { echo "generation failed unexpectedly"; exit 2; }
if ! go test . >"$WORK/test.log" 2>&1; then
	echo "VIOLATION:"; cat "$WORK/test.log"
	grep -n 'Flag' generated.go
	exit 1
fi
echo "OK"
exit 0
