// Package patherr is a minimal wrapErrorsUsing implementation (see docs/reference/wrapErrorsUsing.md).
package patherr

import (
	"fmt"
	"strings"
)

type Error struct {
	Err  error
	Path []string
}

func (e *Error) Error() string { return strings.Join(e.Path, "") + ": " + e.Err.Error() }
func (e *Error) Unwrap() error { return e.Err }

func Wrap(err error, elems ...string) error {
	if e, ok := err.(*Error); ok {
		return &Error{Err: e.Err, Path: append(append([]string{}, elems...), e.Path...)}
	}
	return &Error{Err: err, Path: elems}
}
func Field(name string) string  { return "." + name }
func Index(i int) string        { return fmt.Sprintf("[%d]", i) }
func Key(k interface{}) string  { return fmt.Sprintf("[%v]", k) }
