package methodwrap

import "strconv"

func Atoi(s string) (int, error) { return strconv.Atoi(s) }

type Item struct {
	Name string
	Qty  string
}
type ItemOut struct {
	Name string
	Qty  int
}
type Order struct {
	ID    string
	Items []Item
}
type OrderOut struct {
	ID    int
	Items []ItemOut
}

// goverter:converter
// goverter:output:file ./generated.go
// goverter:output:package example.com/methodwrap
// goverter:extend Atoi
type Converter interface {
	// The docs state that wrapErrorsUsing (and wrapErrors) "can be defined as ... method comment".
	// goverter:wrapErrorsUsing example.com/methodwrap/patherr
	Convert(source Order) (OrderOut, error)
}
