module example.com/methodwrap

go 1.18
