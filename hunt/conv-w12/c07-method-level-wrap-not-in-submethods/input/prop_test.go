package methodwrap

import (
	"errors"
	"strings"
	"testing"

	"example.com/methodwrap/patherr"
)

func TestPath(t *testing.T) {
	c := &ConverterImpl{}
	_, err := c.Convert(Order{ID: "1", Items: []Item{{Name: "a", Qty: "1"}, {Name: "b", Qty: "x"}}})
	if err == nil {
		t.Fatal("error dropped")
	}
	var pe *patherr.Error
	if !errors.As(err, &pe) {
		t.Fatalf("not wrapped at all: %v", err)
	}
	got := strings.Join(pe.Path, "")
	if want := ".Items[1].Qty"; got != want {
		t.Fatalf("reported location %q, want %q", got, want)
	}
}
