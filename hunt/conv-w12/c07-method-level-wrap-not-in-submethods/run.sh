#!/bin/sh
# C07 (wrapErrorsUsing clause): wrapErrorsUsing set as method comment. The failing element is
# target.Items[1].Qty but the reported location is only ".Items[1]": the sub-method that
# goverter generates for Item -> ItemOut is created from the converter-level settings only
# and therefore does not wrap at all.
set -u
HERE="$(cd "$(dirname "$0")" && pwd)"
ROOT="$(cd "$HERE/../.." && pwd)"
export GOPROXY=off GOSUMDB=off GOTOOLCHAIN=local
WORK="$(mktemp -d /tmp/hunt-w12-XXXXXX)"
trap 'rm -rf "$WORK"' EXIT
(cd "$ROOT" && GOFLAGS=-mod=mod go build -o "$WORK/goverter" ./cmd/goverter) || { echo "cannot build goverter"; exit 2; }
mkdir "$WORK/mod" && cp -r "$HERE/input/." "$WORK/mod/" && cd "$WORK/mod" || exit 2
export GOFLAGS=

"$WORK/goverter" gen . || { echo "generation failed unexpectedly"; exit 2; }
if ! go test . >"$WORK/test.log" 2>&1; then
	echo "VIOLATION:"; cat "$WORK/test.log"
	echo "--- generated sub-method (no Wrap/Field call):"
	grep -n -A10 'ItemToMethodwrapItemOut(source Item)' generated.go
	exit 1
fi
echo "OK"
exit 0
