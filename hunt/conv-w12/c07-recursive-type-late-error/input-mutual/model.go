package mutual

import "errors"

type Val struct{ S string }
type ValOut struct{ S string }

// ConvVal is a fallible custom conversion (goverter:extend).
func ConvVal(v Val) (ValOut, error) {
	if v.S == "bad" {
		return ValOut{}, errors.New("bad value")
	}
	return ValOut{S: v.S}, nil
}

// Parent and Child reference each other (e.g. an ORM model with back references).
// Note the field order: the recursive field comes BEFORE the fallible field.
type Parent struct {
	Child *Child
	V     Val
}
type Child struct {
	Parent *Parent
	N      int
}
type ParentOut struct {
	Child *ChildOut
	V     ValOut
}
type ChildOut struct {
	Parent *ParentOut
	N      int
}
type In struct{ P Parent }
type Out struct{ P ParentOut }
