module example.com/mutual

go 1.18
