package mutual

import "testing"

func TestPropagation(t *testing.T) {
	c := &ConverterImpl{}
	good := In{P: Parent{V: Val{"ok"}, Child: &Child{N: 1, Parent: &Parent{V: Val{"ok"}}}}}
	if _, err := c.Convert(good); err != nil {
		t.Fatalf("unexpected error: %v", err)
	}
	// the failing custom call is only reachable through the Child -> Parent back reference
	bad := In{P: Parent{V: Val{"ok"}, Child: &Child{N: 1, Parent: &Parent{V: Val{"bad"}}}}}
	if _, err := c.Convert(bad); err == nil {
		t.Fatalf("error of ConvVal was dropped")
	}
}
