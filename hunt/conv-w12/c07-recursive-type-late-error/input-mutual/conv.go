package mutual

// goverter:converter
// goverter:output:file ./generated.go
// goverter:output:package example.com/mutual
// goverter:extend ConvVal
type Converter interface {
	Convert(source In) (Out, error)
}
