#!/bin/sh
# C07: recursive types + fallible extend function on a field declared AFTER the recursive field.
# Expected: goverter either refuses to generate, or generates code that compiles and propagates
# the error. Observed: exit 0 and generated code that does not compile, because the pointer
# sub-method (*Category -> *CategoryOut) was generated while the Category sub-method was still
# "returns no error" and is never regenerated after that method was switched to return an error.
#   input-self:   struct with a pointer to itself (tree / linked list)
#   input-mutual: two structs referencing each other
set -u
HERE="$(cd "$(dirname "$0")" && pwd)"
ROOT="$(cd "$HERE/../.." && pwd)"
export GOPROXY=off GOSUMDB=off GOTOOLCHAIN=local
WORK="$(mktemp -d /tmp/hunt-w12-XXXXXX)"
trap 'rm -rf "$WORK"' EXIT
(cd "$ROOT" && GOFLAGS=-mod=mod go build -o "$WORK/goverter" ./cmd/goverter) || { echo "cannot build goverter"; exit 2; }
export GOFLAGS=
rc=0
for v in self mutual; do
	echo "=== input-$v"
	mkdir "$WORK/$v" && cp -r "$HERE/input-$v/." "$WORK/$v/" && cd "$WORK/$v" || exit 2
	if ! "$WORK/goverter" gen . >"$WORK/$v.gen.log" 2>&1; then
		echo "goverter refused to generate (acceptable):"; cat "$WORK/$v.gen.log"
		continue
	fi
	echo "goverter exited 0"
	if ! go vet . >"$WORK/$v.vet.log" 2>&1; then
		echo "VIOLATION: goverter reported success but the generated code does not compile:"
		cat "$WORK/$v.vet.log"
		rc=1
		continue
	fi
	if ! go test . >"$WORK/$v.test.log" 2>&1; then
		echo "VIOLATION: error not propagated:"; cat "$WORK/$v.test.log"
		rc=1
		continue
	fi
	echo "OK: generated code compiles and propagates the error"
done
exit $rc
