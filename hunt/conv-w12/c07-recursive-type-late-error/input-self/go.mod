module example.com/selfrec

go 1.18
