package selfrec

import "strconv"

// Atoi is a fallible custom conversion string -> int.
func Atoi(s string) (int, error) { return strconv.Atoi(s) }

// Category is a tree node with a parent reference. The recursive field is declared
// BEFORE the field that needs the fallible conversion.
type Category struct {
	Parent *Category
	ID     string
}
type CategoryOut struct {
	Parent *CategoryOut
	ID     int
}

type Product struct{ Cat Category }
type ProductOut struct{ Cat CategoryOut }

// goverter:converter
// goverter:output:file ./generated.go
// goverter:output:package example.com/selfrec
// goverter:extend Atoi
type Converter interface {
	Convert(source Product) (ProductOut, error)
}
