package selfrec

import "testing"

func TestPropagation(t *testing.T) {
	c := &ConverterImpl{}
	if _, err := c.Convert(Product{Cat: Category{ID: "2", Parent: &Category{ID: "1"}}}); err != nil {
		t.Fatalf("unexpected error: %v", err)
	}
	// the failing custom call is only reachable through the Parent pointer
	if _, err := c.Convert(Product{Cat: Category{ID: "2", Parent: &Category{ID: "x"}}}); err == nil {
		t.Fatalf("error of Atoi was dropped")
	}
}
