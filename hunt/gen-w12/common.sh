# Sourced by every run.sh. Builds the CLI from the worktree and prepares a scratch dir.
# Exit codes of run.sh: 1 = violation reproduced, 0 = goverter behaves correctly, 2 = harness problem.
set -u
HERE=$(cd "$(dirname "${BASH_SOURCE[1]}")" && pwd)
WT=$(cd "$HERE/../.." && pwd)
export GOFLAGS=-mod=mod GOPROXY=off GOSUMDB=off GOTOOLCHAIN=local
TMP=$(mktemp -d /tmp/hunt-gen-w12-XXXXXX)
trap 'rm -rf "$TMP"' EXIT
(cd "$WT" && go build -o "$TMP/goverter" ./cmd/goverter) || { echo "cannot build goverter" >&2; exit 2; }
GOVERTER="$TMP/goverter"
VIOLATION=0
violation() { echo "VIOLATION: $*"; VIOLATION=1; }
finish() { if [ "$VIOLATION" = 1 ]; then exit 1; fi; echo "OK: no violation observed"; exit 0; }
