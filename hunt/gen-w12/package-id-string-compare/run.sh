#!/usr/bin/env bash
# C15: A says output:package example.com/he/out:out, B leaves output:package absent; for B
# goverter infers path example.com/he/out and name "out" (normalised directory name). Both
# agree on the package, yet generation fails with "Cannot use different packages" because
# the check compares the strings "example.com/he/out:out" and "example.com/he/out".
# As soon as any Go file exists in out/ the very same input succeeds.
. "$(dirname "$0")/../common.sh"
cp -r "$HERE/input" "$TMP/mod"
cd "$TMP/mod"
"$GOVERTER" gen ./... 2>"$TMP/err"; rc1=$?
echo "clean tree: exit $rc1"; sed 's/^/    /' "$TMP/err"
mkdir -p out; printf 'package out\n' > out/doc.go
"$GOVERTER" gen ./... 2>"$TMP/err2"; rc2=$?
echo "with out/doc.go (package out) present: exit $rc2; generated clause: $(grep '^package' out/gen.go 2>/dev/null)"
if [ "$rc1" != 0 ]; then
	violation "C15: converters that agree on package example.com/he/out (name out) for the same file are rejected"
fi
finish
