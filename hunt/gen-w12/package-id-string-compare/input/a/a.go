package a

// goverter:converter
// goverter:output:file ../out/gen.go
// goverter:output:package example.com/he/out:out
type A interface {
	Convert(In) Out
}

type In struct{ A int }
type Out struct{ A int }
