module example.com/he

go 1.18
