package b

// goverter:converter
// goverter:output:file ../out/gen.go
type B interface {
	Convert(In) Out
}

type In struct{ B int }
type Out struct{ B int }
