#!/usr/bin/env bash
# C15: output:package absent, the target directory already holds package "conv" (dir name
# "convgen"), but its only file is guarded with //go:build !goverter because it uses the
# generated code. goverter loads with -tags goverter, does not see the package name and
# emits "package convgen" -> two package names in one directory.
. "$(dirname "$0")/../common.sh"
cp -r "$HERE/input" "$TMP/mod"
cd "$TMP/mod"
"$GOVERTER" gen ./... || { echo "goverter failed"; exit 2; }
clause=$(grep '^package ' convgen/gen.go)
echo "existing package clause: $(grep '^package ' convgen/use.go); generated: $clause"
if [ "$clause" != "package conv" ]; then
	violation "C15: generated package clause is '$clause', expected the existing package at that location ('package conv')"
	go vet ./convgen 2>&1 | head -3
fi
finish
