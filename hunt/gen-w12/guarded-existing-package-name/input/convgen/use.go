//go:build !goverter

// This file references generated code, so it is guarded with the output constraint as the
// documentation recommends. The package in this directory is named "conv".
package conv

var Default = &AImpl{}
