module example.com/hk

go 1.18
