package a

// goverter:converter
// goverter:output:file ../convgen/gen.go
type A interface {
	Convert(In) Out
}

type In struct{ A int }
type Out struct{ A int }
