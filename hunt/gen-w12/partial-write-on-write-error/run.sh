#!/usr/bin/env bash
# C17/C09: when one output file cannot be written (here: b/generated/generated.go is an
# existing directory) goverter exits 1 but has already written the other converter's file --
# and whether it did depends on Go's map iteration order (runner.go writeFiles).
. "$(dirname "$0")/../common.sh"

wrote=0; notwrote=0; badrc=0
for i in $(seq 1 40); do
	rm -rf "$TMP/mod"; cp -r "$HERE/input" "$TMP/mod"
	(cd "$TMP/mod" && "$GOVERTER" gen ./... 2>"$TMP/err"); rc=$?
	[ "$rc" = 1 ] || badrc=1
	if [ -e "$TMP/mod/a/generated/generated.go" ]; then wrote=$((wrote+1)); else notwrote=$((notwrote+1)); fi
done
echo "diagnostic: $(cat "$TMP/err")"
echo "40 failing runs (exit 1): a/generated/generated.go created in $wrote runs, not created in $notwrote runs"
[ "$badrc" = 0 ] || violation "unexpected exit status"
if [ "$wrote" -gt 0 ]; then
	violation "C17: a run that exits with status 1 created a/generated/generated.go"
fi
if [ "$wrote" -gt 0 ] && [ "$notwrote" -gt 0 ]; then
	violation "C09: the file system state after the same failing run differs from run to run"
fi
finish
