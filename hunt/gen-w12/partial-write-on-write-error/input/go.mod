module example.com/hd

go 1.18
