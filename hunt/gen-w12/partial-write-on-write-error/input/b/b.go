package b

// goverter:converter
type B interface {
	Convert(In) Out
}

type In struct{ B int }
type Out struct{ B int }
