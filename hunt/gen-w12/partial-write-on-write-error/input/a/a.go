package a

// goverter:converter
type A interface {
	Convert(In) Out
}

type In struct{ A int }
type Out struct{ A int }
