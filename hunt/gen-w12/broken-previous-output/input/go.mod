module example.com/hi

go 1.18
