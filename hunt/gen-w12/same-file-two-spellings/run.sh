#!/usr/bin/env bash
# C15/C09: two converters select the same output file, one with a relative output:file and one
# with an absolute, not lexically clean output:file (<module>/b/../out/gen.go). The file manager
# keys files by the uncleaned string, so they are neither merged nor checked for package
# agreement; both are written to the same path and the last writer (map order) wins.
. "$(dirname "$0")/../common.sh"
cp -r "$HERE/input" "$TMP/mod"
sed "s#__ROOT__#$TMP/mod#" "$TMP/mod/b/b.go.tmpl" > "$TMP/mod/b/b.go"; rm "$TMP/mod/b/b.go.tmpl"
cd "$TMP/mod"

sawA=0; sawB=0; both=0
for i in $(seq 1 40); do
	rm -rf out
	"$GOVERTER" gen ./... 2>"$TMP/err"; rc=$?
	if [ "$rc" != 0 ]; then echo "goverter failed (that would be acceptable: packages disagree)"; cat "$TMP/err"; finish; fi
	a=$(grep -c 'type AImpl struct' out/gen.go); b=$(grep -c 'type BImpl struct' out/gen.go)
	if [ "$a" = 1 ] && [ "$b" = 1 ]; then both=$((both+1)); elif [ "$a" = 1 ]; then sawA=$((sawA+1)); else sawB=$((sawB+1)); fi
done
echo "40 successful runs: out/gen.go contained only AImpl $sawA times, only BImpl $sawB times, both $both times"
if [ "$both" != 40 ]; then
	violation "C15: exit 0 but out/gen.go does not contain both converters (not merged, package disagreement example.com/hc/out vs example.com/hc/other not rejected)"
fi
if [ "$sawA" -gt 0 ] && [ "$sawB" -gt 0 ]; then
	violation "C09: content of out/gen.go differs between identical runs"
fi
finish
