package a

// goverter:converter
// goverter:output:file ../out/gen.go
type A interface {
	Convert(In) Out
}

type In struct{ A int }
type Out struct{ A int }
