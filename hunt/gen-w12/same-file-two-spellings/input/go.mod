module example.com/hc

go 1.18
