#!/usr/bin/env bash
# C09 (history independence) with -output-constraint "" (a legal configuration per C16):
# v1 of the input names the output package "foo"; v2 drops the setting. Regenerating v2 over
# v1's output yields "package foo", generating v2 from a clean tree yields "package out".
# With the default constraint the previous output is excluded and both give "package out".
. "$(dirname "$0")/../common.sh"
cp -r "$HERE/input" "$TMP/mod"
cd "$TMP/mod"

for constraint in '!goverter' ''; do
	rm -rf out; cp "$HERE/input/a/a.go" a/a.go
	"$GOVERTER" gen -output-constraint "$constraint" ./... || exit 2      # v1
	sed -i '/output:package/d' a/a.go                                       # v2
	"$GOVERTER" gen -output-constraint "$constraint" ./... || exit 2
	cp out/gen.go "$TMP/over-stale.go"
	rm -rf out
	"$GOVERTER" gen -output-constraint "$constraint" ./... || exit 2
	echo "constraint='$constraint': over stale output -> $(grep '^package' "$TMP/over-stale.go"); clean tree -> $(grep '^package' out/gen.go)"
	if ! cmp -s "$TMP/over-stale.go" out/gen.go; then
		violation "C09: with -output-constraint '$constraint' regenerating over the previous output differs from generating from a clean tree"
	fi
done
finish
