module example.com/hf

go 1.18
