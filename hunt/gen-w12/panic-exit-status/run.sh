#!/usr/bin/env bash
# C17/C09: inputs goverter cannot convert make it panic: exit status 2 (not 1) and a Go
# stack trace (with per-run addresses) instead of a diagnostic.
. "$(dirname "$0")/../common.sh"
cp -r "$HERE/input" "$TMP/mod"
cd "$TMP/mod"

for pkg in uintptr generic; do
	"$GOVERTER" gen ./good ./$pkg >"$TMP/out1" 2>"$TMP/err1"; rc=$?
	"$GOVERTER" gen ./good ./$pkg >"$TMP/out2" 2>"$TMP/err2"
	echo "[$pkg] exit status $rc; first stderr lines:"; head -4 "$TMP/err1" | sed 's/^/    /'
	if [ "$rc" != 1 ]; then
		violation "C17: run with unconvertible converter ./$pkg exits with status $rc, expected 1"
	fi
	if grep -q '^goroutine ' "$TMP/err1"; then
		violation "C17: stderr is a Go panic stack trace, not a diagnostic (./$pkg)"
	fi
	if ! cmp -s "$TMP/err1" "$TMP/err2"; then
		violation "C09: the failure output differs between two identical runs (./$pkg)"
	fi
	if [ -n "$(find . -name '*.go' -path '*generated*')" ]; then
		violation "C17: files were written by a failing run"
	fi
done
finish
