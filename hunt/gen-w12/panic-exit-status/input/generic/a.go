package generic

// goverter:converter
type C[T any] interface {
	Convert(In[T]) Out[T]
}

type In[T any] struct{ A T }
type Out[T any] struct{ A T }
