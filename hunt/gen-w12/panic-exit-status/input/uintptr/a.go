package uintptr

// goverter:converter
type C interface {
	Convert(In) Out
}

// e.g. a list of window/handle ids
type In struct {
	Name    string
	Handles []uintptr
}
type Out struct {
	Name    string
	Handles []uintptr
}
