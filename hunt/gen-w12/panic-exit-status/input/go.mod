module example.com/h10

go 1.18
