package good

// goverter:converter
type C interface {
	Convert(In) Out
}

type In struct{ A int }
type Out struct{ A int }
