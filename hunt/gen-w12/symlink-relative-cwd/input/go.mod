module example.com/h5

go 1.18
