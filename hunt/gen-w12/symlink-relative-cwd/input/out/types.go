package out

type In struct{ A int }
type Out struct{ A int }
