package a

import "example.com/h5/out"

// goverter:converter
// goverter:output:file @cwd/out/gen.go
type C interface {
	Convert(out.In) out.Out
}
