#!/usr/bin/env bash
# C09/C15: module reached through a symlink + relative -cwd => @cwd/ output gets the wrong package path
. "$(dirname "$0")/../common.sh"

mkdir -p "$TMP/phys"
cp -r "$HERE/input" "$TMP/phys/mod"
ln -s phys/mod "$TMP/link"

# run 1: chdir into the (symlinked) module, no -cwd
(cd "$TMP/link" && "$GOVERTER" gen ./...) || { echo "run1 failed"; exit 2; }
cp "$TMP/phys/mod/out/gen.go" "$TMP/chdir.go"; rm "$TMP/phys/mod/out/gen.go"

# run 2: same directory, same shell, working directory given as "-cwd ."
(cd "$TMP/link" && "$GOVERTER" gen -cwd . ./...) || { echo "run2 failed"; exit 2; }
cp "$TMP/phys/mod/out/gen.go" "$TMP/cwdflag.go"

# run 3: from the parent directory, -cwd <relative symlink>
rm "$TMP/phys/mod/out/gen.go"
(cd "$TMP" && "$GOVERTER" gen -cwd link ./...) || { echo "run3 failed"; exit 2; }
cp "$TMP/phys/mod/out/gen.go" "$TMP/cwdrel.go"

if ! cmp -s "$TMP/chdir.go" "$TMP/cwdflag.go"; then
	violation "C09: 'cd mod && goverter gen ./...' and 'cd mod && goverter gen -cwd . ./...' emit different bytes"
	diff "$TMP/chdir.go" "$TMP/cwdflag.go"
fi
if ! cmp -s "$TMP/chdir.go" "$TMP/cwdrel.go"; then
	violation "C09: chdir vs '-cwd link' (relative symlink) emit different bytes"
fi
if ! (cd "$TMP/phys/mod" && go build ./... 2>"$TMP/build.err"); then
	violation "C15: file generated with relative -cwd has the wrong package path (imports its own package)"
	cat "$TMP/build.err"
fi
finish
