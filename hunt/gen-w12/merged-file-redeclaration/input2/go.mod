module example.com/hv

go 1.18
