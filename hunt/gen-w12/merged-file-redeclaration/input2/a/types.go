package a

type In struct {
	N NIn
	X int
}
type Out struct {
	N NOut
	X int
}
type In2 struct {
	N NIn
	Y int
}
type Out2 struct {
	N NOut
	Y int
}
type NIn struct{ A int }
type NOut struct{ A int }
