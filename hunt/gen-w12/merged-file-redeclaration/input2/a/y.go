package a

// goverter:variables
var (
	ConvY func(In2) Out2
)
