package a

// goverter:variables
var (
	ConvX func(In) Out
)
