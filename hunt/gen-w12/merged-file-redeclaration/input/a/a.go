package a

// goverter:converter
// goverter:output:file @cwd/gen/gen.go
type Converter interface {
	Convert(In) Out
}

type In struct{ A int }
type Out struct{ A int }
