module example.com/hh

go 1.18
