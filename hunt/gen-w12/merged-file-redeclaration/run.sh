#!/usr/bin/env bash
# C15 ("merged into one well-formed file" / "several files per package"):
#  case 1: two interfaces both called Converter (the name used throughout the docs) in
#          packages a and b select the same output file -> exit 0, file declares
#          "type ConverterImpl struct{}" twice.
#  case 2: two goverter:variables blocks in two files of one package (default outputs
#          x.gen.go / y.gen.go) both need the helper aNInToANOut -> exit 0, the helper is
#          emitted into both files, the package no longer compiles.
. "$(dirname "$0")/../common.sh"
cp -r "$HERE/input" "$TMP/mod1"; cp -r "$HERE/input2" "$TMP/mod2"

cd "$TMP/mod1"
"$GOVERTER" gen ./...; rc=$?
n=$(grep -c '^type ConverterImpl struct' gen/gen.go 2>/dev/null)
echo "case 1: exit $rc, 'type ConverterImpl struct' declared $n times in gen/gen.go"
if [ "$rc" = 0 ] && ! go vet ./gen 2>"$TMP/vet1"; then
	violation "C15: exit 0 but the merged file gen/gen.go is not well-formed"
	head -3 "$TMP/vet1"
fi

cd "$TMP/mod2"
"$GOVERTER" gen ./...; rc=$?
echo "case 2: exit $rc, files: $(ls a | tr '\n' ' ')"
if [ "$rc" = 0 ] && ! go vet ./a 2>"$TMP/vet2"; then
	violation "C15: exit 0 but the two generated files of package a redeclare the same helper"
	head -3 "$TMP/vet2"
fi
finish
