package a

// goverter:converter
// goverter:output:file @ROOT@/mod/out/
type A interface {
	Conv(in In) Out
}
type In struct{ X int }
type Out struct{ X int }
