#!/bin/sh
# exit 1 when the problem is present: 'output:file <abs>/out/' (a directory, trailing slash) is
# accepted and a Go file named 'out' is written, exit 0; 75eca26 fails with 'is a directory'.
set -u
here=$(cd "$(dirname "$0")" && pwd)
export GOFLAGS=-mod=mod GOPROXY=off GOSUMDB=off GOTOOLCHAIN=local
bin=${GOVERTER_BIN:-}
tmp=$(mktemp -d /tmp/w18hunt.XXXXXX)
trap 'rm -rf "$tmp"' EXIT
if [ -z "$bin" ]; then
  bin=$tmp/goverter
  (cd "$here/../.." && go build -o "$bin" ./cmd/goverter) || exit 2
fi
cp -r "$here/tmpl" "$tmp/mod"
sed -i "s#@ROOT@#$tmp#" "$tmp/mod/a/a.go"
(cd "$tmp/mod" && "$bin" gen ./a); rc=$?
echo "exit code $rc"; ls -ld "$tmp/mod/out"
if [ $rc -eq 0 ] && [ -f "$tmp/mod/out" ]; then
  echo "PROBLEM: a regular file named 'out' was written for output:file .../out/"
  exit 1
fi
exit 0
