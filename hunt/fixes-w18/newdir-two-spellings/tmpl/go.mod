module example.com/m

go 1.21
