package a

// goverter:converter
// goverter:output:file @ROOT@/sym/mod/./newdir/gen.go
// goverter:output:package example.com/m/newdir
type A interface {
	Conv(in In) Out
}
type In struct{ X int }
type Out struct{ X int }
