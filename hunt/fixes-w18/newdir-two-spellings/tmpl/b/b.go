package b

// goverter:converter
// goverter:output:file @ROOT@/sym/mod/newdir/gen.go
// goverter:output:package example.com/m/newdir
type B interface {
	Conv2(in In) Out
}
type In struct{ Y int }
type Out struct{ Y int }
