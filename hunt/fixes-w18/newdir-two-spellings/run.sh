#!/bin/sh
# exit 1 when the problem is present: two spellings of one not yet existing output file
# (<root>/sym/mod/./newdir/gen.go and <root>/sym/mod/newdir/gen.go, sym a symbolic link)
# are rendered as two files, one silently overwrites the other (AImpl is lost).
set -u
here=$(cd "$(dirname "$0")" && pwd)
export GOFLAGS=-mod=mod GOPROXY=off GOSUMDB=off GOTOOLCHAIN=local
bin=${GOVERTER_BIN:-}
tmp=$(mktemp -d /tmp/w18hunt.XXXXXX)
trap 'rm -rf "$tmp"' EXIT
if [ -z "$bin" ]; then
  bin=$tmp/goverter
  (cd "$here/../.." && go build -o "$bin" ./cmd/goverter) || exit 2
fi
mkdir -p "$tmp/real"
cp -r "$here/tmpl" "$tmp/real/mod"
ln -s real "$tmp/sym"
sed -i "s#@ROOT@#$tmp#" "$tmp/real/mod/a/a.go" "$tmp/real/mod/b/b.go"
(cd "$tmp/real/mod" && "$bin" gen ./a ./b) || { echo "generation failed (not the problem looked for)"; exit 2; }
gen=$tmp/real/mod/newdir/gen.go
if grep -q 'type AImpl' "$gen" && grep -q 'type BImpl' "$gen"; then
  echo "OK: both converters in $gen"
  exit 0
fi
echo "PROBLEM: first run wrote only:"; grep '^type' "$gen"
(cd "$tmp/real/mod" && "$bin" gen ./a ./b)
echo "second run (directory exists now) wrote:"; grep '^type' "$gen"
exit 1
