package conv

// goverter:converter
type Converter interface {
	Convert(In) Out
}

type In struct{ A int }
type Out struct{ A int }
