module example.com/coverconv

go 1.18
