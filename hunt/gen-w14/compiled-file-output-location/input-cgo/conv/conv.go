package conv

/*
typedef int handle_t;
*/
import "C"

// goverter:converter
type Converter interface {
	Convert(In) Out
}

type In struct{ A int }
type Out struct{ A int }

// Handle uses cgo, which is why this file is preprocessed by cgo.
func Handle() C.handle_t { return 0 }
