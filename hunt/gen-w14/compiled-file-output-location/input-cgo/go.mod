module example.com/cgoconv

go 1.18
