#!/bin/bash
# C15 / C09: the output path is derived from the name of the *compiled* Go file.
#  (a) a converter declared in a file that imports "C" (cgo)
#  (b) any converter when the environment has GOFLAGS=-cover
# In both cases `go list -compiled` hands goverter a preprocessed copy of the declaring file that
# lives in the Go build cache; goverter resolves output:file relative to that copy, reports success
# and writes <GOCACHE>/xx/generated/generated.go instead of <module>/conv/generated/generated.go.
# exit 1 = violation present, exit 0 = goverter behaves correctly.
set -u
HERE="$(cd "$(dirname "$0")" && pwd)"
ROOT="$(cd "$HERE/../.." && pwd)"
TMP="$(mktemp -d /tmp/hunt-w14-compiled.XXXXXX)"
trap 'chmod -R u+w "$TMP" 2>/dev/null; rm -rf "$TMP"' EXIT

(cd "$ROOT" && GOFLAGS=-mod=mod GOPROXY=off GOSUMDB=off GOTOOLCHAIN=local go build -o "$TMP/goverter" ./cmd/goverter) || { echo "build failed"; exit 2; }

# private build cache so that the misplaced files can be observed and are removed again
export GOCACHE="$TMP/gocache" GOPROXY=off GOSUMDB=off GOTOOLCHAIN=local
bad=0

check() { # name, module dir, GOFLAGS value
	local name="$1" mod="$2" flags="$3"
	(cd "$mod" && GOFLAGS="$flags" "$TMP/goverter" gen ./conv) >"$TMP/$name.out" 2>&1
	local ec=$?
	echo "[$name] exit=$ec"
	cat "$TMP/$name.out"
	if [ -f "$mod/conv/generated/generated.go" ]; then
		echo "[$name] OK: output written to conv/generated/generated.go"
	elif [ $ec -eq 0 ]; then
		echo "[$name] VIOLATION: exit 0 but conv/generated/generated.go was not written"
		bad=1
	fi
	local stray
	stray="$(find "$GOCACHE" -name 'generated.go' 2>/dev/null)"
	if [ -n "$stray" ]; then
		echo "[$name] VIOLATION: output landed in the Go build cache:"
		echo "$stray"
		bad=1
		find "$GOCACHE" -type d -name generated -exec rm -rf {} + 2>/dev/null
	fi
}

cp -r "$HERE/input-cover" "$TMP/cover"
check cover-clean-env "$TMP/cover" ""           # control: must work
rm -rf "$TMP/cover/conv/generated"
check cover "$TMP/cover" "-cover"               # same input, only the environment differs

if [ "$(go env CGO_ENABLED)" = "1" ] && command -v gcc >/dev/null 2>&1; then
	cp -r "$HERE/input-cgo" "$TMP/cgo"
	check cgo "$TMP/cgo" ""
else
	echo "[cgo] skipped: cgo not available"
fi

exit $bad
