module example.com/sym

go 1.18
