package conv

// goverter:converter
// goverter:output:file ../out/gen.go
type A interface {
	Convert(In) Out
}

// goverter:converter
// goverter:output:file ../outlink/gen.go
type B interface {
	Convert(In) Out
}

type In struct{ A int }
type Out struct{ A int }
