#!/bin/bash
# C15: converters that select the same file are merged into one well-formed file.
# `outlink` is a symlink to `out` inside the module. Converter A selects ../out/gen.go, converter B
# ../outlink/gen.go: the same file. The file manager keys files by the lexical path, renders two
# files and writes both to the one inode: exit 0, but AImpl is silently lost (only BImpl remains).
# (Variant of the already recorded symlinked-cwd findings, but needs neither -cwd nor absolute paths.)
# exit 1 = violation present, exit 0 = goverter behaves correctly.
set -u
HERE="$(cd "$(dirname "$0")" && pwd)"
ROOT="$(cd "$HERE/../.." && pwd)"
TMP="$(mktemp -d /tmp/hunt-w14-symdup.XXXXXX)"
trap 'rm -rf "$TMP"' EXIT
(cd "$ROOT" && GOFLAGS=-mod=mod GOPROXY=off GOSUMDB=off GOTOOLCHAIN=local go build -o "$TMP/goverter" ./cmd/goverter) || { echo "build failed"; exit 2; }
export GOFLAGS= GOPROXY=off GOSUMDB=off GOTOOLCHAIN=local
cp -r "$HERE/input" "$TMP/mod"
ln -s out "$TMP/mod/outlink"
(cd "$TMP/mod" && "$TMP/goverter" gen ./conv) >"$TMP/o" 2>&1
ec=$?
echo "exit=$ec"; cat "$TMP/o"
if [ $ec -ne 0 ]; then echo "OK: rejected"; exit 0; fi
grep -n 'type .*Impl' "$TMP/mod/out/gen.go"
if grep -q 'type AImpl' "$TMP/mod/out/gen.go" && grep -q 'type BImpl' "$TMP/mod/out/gen.go"; then
	echo "OK: merged"; exit 0
fi
echo "VIOLATION: exit 0 but out/gen.go does not contain both converters"
exit 1
