package conv

// goverter:converter
// goverter:output:file ../converters.go
type Converter interface {
	Convert(In) Out
}

type In struct{ A int }
type Out struct{ A int }
