module example.com/my-svc/v2

go 1.18
