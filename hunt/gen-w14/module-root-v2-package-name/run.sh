#!/bin/bash
# C15 (MINOR, spec-literal): without output:package and without an existing package at the target
# location the package clause is "the normalised directory name". For an output into the module root
# of example.com/my-svc/v2 (directory my-svc, no Go files in the root yet) goverter emits `package v2`:
# the name is guessed from the last import path element, not from the directory (mysvc), and it is
# not what Go uses for a /vN module root either.
# exit 1 = violation present, exit 0 = goverter behaves correctly.
set -u
HERE="$(cd "$(dirname "$0")" && pwd)"
ROOT="$(cd "$HERE/../.." && pwd)"
TMP="$(mktemp -d /tmp/hunt-w14-v2.XXXXXX)"
trap 'rm -rf "$TMP"' EXIT
(cd "$ROOT" && GOFLAGS=-mod=mod GOPROXY=off GOSUMDB=off GOTOOLCHAIN=local go build -o "$TMP/goverter" ./cmd/goverter) || { echo "build failed"; exit 2; }
export GOFLAGS= GOPROXY=off GOSUMDB=off GOTOOLCHAIN=local
cp -r "$HERE/input" "$TMP/w"
(cd "$TMP/w/my-svc" && "$TMP/goverter" gen ./conv) || { echo "generation failed"; exit 2; }
clause="$(grep '^package' "$TMP/w/my-svc/converters.go")"
echo "directory: my-svc   import path: example.com/my-svc/v2   emitted: $clause"
if [ "$clause" = "package mysvc" ]; then echo OK; exit 0; fi
echo "VIOLATION: package clause is not the normalised directory name"
exit 1
