package model

type Color int

const (
	colorInvalid Color = iota // internal sentinel, not part of the public API
	Red
	Green
)

func (c Color) Valid() bool { return c != colorInvalid }

type Item struct {
	Name  string
	Color Color
}

type Name struct{ V string }

func CopyName(n Name) Name { return n }
