module example.com/enumdep

go 1.18
