package other

import "example.com/enumdep/model"

// goverter:converter
// goverter:extend example.com/enumdep/model:CopyName
type Converter interface {
	Convert(In) Out
}

type In struct{ Name model.Name }
type Out struct{ Name model.Name }
