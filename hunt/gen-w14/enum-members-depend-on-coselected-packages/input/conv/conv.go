package conv

import (
	"example.com/enumdep/api"
	"example.com/enumdep/model"
)

// goverter:converter
// goverter:enum:unknown @panic
type Converter interface {
	Convert(model.Item) api.Item
}
