package api

type Color string

const (
	Red   Color = "red"
	Green Color = "green"
)

type Item struct {
	Name  string
	Color Color
}
