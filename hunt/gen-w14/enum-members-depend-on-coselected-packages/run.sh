#!/bin/bash
# C09: the result for a converter must be a function of its input sources, the settings and the CLI
# options - not of which unrelated packages happen to be selected in the same run.
#
# conv.Converter converts model.Item -> api.Item; model.Color is an enum with an unexported sentinel
# constant (colorInvalid). `goverter gen ./conv` succeeds (model is a dependency, loaded from export
# data, only exported constants are enum members). `goverter gen ./conv ./other` (or ./...) FAILS for
# conv.Converter: the unrelated converter in ./other has `goverter:extend example.com/enumdep/model:CopyName`,
# which makes pkgload type-check `model` from source in the one shared packages.Load; now the
# unexported constant is an enum member as well ("Enum colorInvalid does not exist on api.Color").
# exit 1 = violation present, exit 0 = goverter behaves correctly.
set -u
HERE="$(cd "$(dirname "$0")" && pwd)"
ROOT="$(cd "$HERE/../.." && pwd)"
TMP="$(mktemp -d /tmp/hunt-w14-enumdep.XXXXXX)"
trap 'rm -rf "$TMP"' EXIT

(cd "$ROOT" && GOFLAGS=-mod=mod GOPROXY=off GOSUMDB=off GOTOOLCHAIN=local go build -o "$TMP/goverter" ./cmd/goverter) || { echo "build failed"; exit 2; }
export GOFLAGS= GOPROXY=off GOSUMDB=off GOTOOLCHAIN=local

run() { # name, patterns...
	local name="$1"; shift
	rm -rf "$TMP/$name"; cp -r "$HERE/input" "$TMP/$name"
	(cd "$TMP/$name" && "$TMP/goverter" gen "$@") >"$TMP/$name.out" 2>&1
	echo $? >"$TMP/$name.ec"
	echo "[$name] goverter gen $* -> exit $(cat "$TMP/$name.ec")"
}

run only-conv ./conv
run only-other ./other
run both ./conv ./other
run all ./...

tail -n 6 "$TMP/both.out"

a="$TMP/only-conv/conv/generated/generated.go"
b="$TMP/both/conv/generated/generated.go"
if [ "$(cat "$TMP/only-conv.ec")" = 0 ] && [ "$(cat "$TMP/only-other.ec")" = 0 ]; then
	if [ "$(cat "$TMP/both.ec")" != 0 ] || [ "$(cat "$TMP/all.ec")" != 0 ] || ! cmp -s "$a" "$b"; then
		echo "VIOLATION: each package generates on its own, but selecting both changes the result for conv.Converter"
		exit 1
	fi
fi
echo "OK: result for conv.Converter does not depend on the co-selected package"
exit 0
