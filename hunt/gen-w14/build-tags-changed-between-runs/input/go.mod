module example.com/tags

go 1.18
