#!/bin/bash
# C16 / C09 (BORDERLINE - history with a changed tag pair): "stale output never blocks regeneration ...
# for all custom -build-tags/-output-constraint pairs and all prior states of the output files";
# "regenerating over a stale previous output produces the same files as generating from a clean tree".
# run 1: default pair (goverter / !goverter), same-package layout.
# edit : type Out is renamed to Result; the project switches to its own tag pair.
# run 2: -build-tags codegen -output-constraint '!codegen' -> the previous output carries
#        //go:build !goverter, is NOT excluded by the new tag, is stale and blocks regeneration.
# From a clean tree run 2 succeeds. Nothing in the previous output but the constraint line
# identifies it as excluded, so only the pair that produced a file can regenerate over it.
# exit 1 = violation present, exit 0 = goverter behaves correctly.
set -u
HERE="$(cd "$(dirname "$0")" && pwd)"
ROOT="$(cd "$HERE/../.." && pwd)"
TMP="$(mktemp -d /tmp/hunt-w14-tags.XXXXXX)"
trap 'rm -rf "$TMP"' EXIT
(cd "$ROOT" && GOFLAGS=-mod=mod GOPROXY=off GOSUMDB=off GOTOOLCHAIN=local go build -o "$TMP/goverter" ./cmd/goverter) || { echo "build failed"; exit 2; }
export GOFLAGS= GOPROXY=off GOSUMDB=off GOTOOLCHAIN=local
cp -r "$HERE/input" "$TMP/hist"; cp -r "$HERE/input" "$TMP/clean"
(cd "$TMP/hist" && "$TMP/goverter" gen ./conv) || { echo "run 1 failed"; exit 2; }
sed -i 's/\bOut\b/Result/g' "$TMP/hist/conv/conv.go" "$TMP/clean/conv/conv.go"
(cd "$TMP/clean" && "$TMP/goverter" gen -build-tags codegen -output-constraint '!codegen' ./conv); c=$?
(cd "$TMP/hist" && "$TMP/goverter" gen -build-tags codegen -output-constraint '!codegen' ./conv) >"$TMP/o" 2>&1; h=$?
echo "clean tree: exit=$c   over previous output: exit=$h"; head -n 5 "$TMP/o"
if [ $c -eq 0 ] && { [ $h -ne 0 ] || ! cmp -s "$TMP/clean/conv/conv_gen.go" "$TMP/hist/conv/conv_gen.go"; }; then
	echo "VIOLATION: previous goverter output (other tag pair) blocks regeneration"
	exit 1
fi
echo "OK"; exit 0
