#!/bin/bash
# C15: without output:package and without an existing package at the target location the package
# clause is "the normalised directory name". For a directory whose name is a Go keyword
# (go, type, func, map, range, ...) the "normalised" name is the keyword itself: jennifer renders
# `package go`, gofmt rejects it and the run fails with a dump of unformatted source
# ("Error 4:9: expected 'IDENT', found 'go' ... while formatting source") - a legal layout
# (output:file ../go/converter.go) cannot be generated at all unless output:package is spelled out.
# exit 1 = violation present, exit 0 = goverter behaves correctly.
set -u
HERE="$(cd "$(dirname "$0")" && pwd)"
ROOT="$(cd "$HERE/../.." && pwd)"
TMP="$(mktemp -d /tmp/hunt-w14-keyword.XXXXXX)"
trap 'rm -rf "$TMP"' EXIT
(cd "$ROOT" && GOFLAGS=-mod=mod GOPROXY=off GOSUMDB=off GOTOOLCHAIN=local go build -o "$TMP/goverter" ./cmd/goverter) || { echo "build failed"; exit 2; }
export GOFLAGS= GOPROXY=off GOSUMDB=off GOTOOLCHAIN=local
cp -r "$HERE/input" "$TMP/mod"
(cd "$TMP/mod" && "$TMP/goverter" gen ./conv) >"$TMP/out" 2>&1
ec=$?
echo "exit=$ec"; head -n 6 "$TMP/out"
if [ $ec -eq 0 ] && [ -f "$TMP/mod/go/converter.go" ] && (cd "$TMP/mod" && go build ./...); then
	echo "OK: generated a compilable package: $(grep '^package' "$TMP/mod/go/converter.go")"
	exit 0
fi
echo "VIOLATION: converter with output:file ../go/converter.go cannot be generated (package clause is the keyword 'go')"
exit 1
