package conv

// The repository keeps one directory per language (bindings/go, bindings/ts, ...).
//
// goverter:converter
// goverter:output:file ../go/converter.go
type Converter interface {
	Convert(In) Out
}

type In struct{ A int }
type Out struct{ A int }
