module example.com/bindings

go 1.18
