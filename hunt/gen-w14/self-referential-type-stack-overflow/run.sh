#!/bin/bash
# C17: a converter that cannot be generated must make goverter exit with status 1 and print a diagnostic.
# A struct field whose type is a self-referential named slice/map/pointer/array type
# (type Tree []Tree, type M map[string]M, type P *P) sends xtype.TypeOf into unbounded recursion:
# the process dies with "fatal error: stack overflow" (exit status 2, ~30 KB goroutine dump, ~5 s)
# instead of exit 1 + diagnostic (or simply generating the converter, the field is same-typed).
# exit 1 = violation present, exit 0 = goverter behaves correctly.
set -u
HERE="$(cd "$(dirname "$0")" && pwd)"
ROOT="$(cd "$HERE/../.." && pwd)"
TMP="$(mktemp -d /tmp/hunt-w14-selfref.XXXXXX)"
trap 'rm -rf "$TMP"' EXIT

(cd "$ROOT" && GOFLAGS=-mod=mod GOPROXY=off GOSUMDB=off GOTOOLCHAIN=local go build -o "$TMP/goverter" ./cmd/goverter) || { echo "build failed"; exit 2; }
cp -r "$HERE/input" "$TMP/mod"
export GOFLAGS= GOPROXY=off GOSUMDB=off GOTOOLCHAIN=local

(cd "$TMP/mod" && go vet ./...) || { echo "input is not legal Go"; exit 2; }

(cd "$TMP/mod" && "$TMP/goverter" gen ./good ./tree) >"$TMP/stdout" 2>"$TMP/stderr"
ec=$?
echo "exit status: $ec"
echo "stderr: $(wc -c <"$TMP/stderr") bytes, first lines:"
head -n 4 "$TMP/stderr"

if [ $ec -eq 0 ]; then
	echo "OK: generated"
	exit 0
fi
if [ $ec -eq 1 ] && ! grep -q 'goroutine\|fatal error' "$TMP/stderr"; then
	echo "OK: regular failure with diagnostic"
	exit 0
fi
echo "VIOLATION: goverter crashed (status $ec) instead of exiting 1 with a diagnostic"
exit 1
