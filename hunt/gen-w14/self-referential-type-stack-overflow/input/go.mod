module example.com/selfref

go 1.18
