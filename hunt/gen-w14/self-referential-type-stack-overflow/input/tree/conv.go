package tree

// goverter:converter
// goverter:skipCopySameType
type Converter interface {
	Convert(In) Out
}

// Tree is a legal self-referential slice type (a rose tree without payload).
type Tree []Tree

type In struct {
	Name string
	Kids Tree
}

type Out struct {
	Name string
	Kids Tree
}
