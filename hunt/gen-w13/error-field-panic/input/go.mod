module example.com/errfield

go 1.18
