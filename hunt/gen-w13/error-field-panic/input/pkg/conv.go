package pkg

// A result record carrying an error value, converted to its API twin.
type Input struct {
	Name string
	Err  error
}

type Output struct {
	Name string
	Err  error
}

// goverter:converter
type Converter interface {
	Convert(source Input) Output
}
