#!/bin/sh
# C17: a run must end with exit status 0 (success, files written) or 1 (diagnostic on stderr).
# Here goverter panics (exit status 2, Go stack trace) on a struct field of the builtin type error.
HERE=$(cd "$(dirname "$0")" && pwd)
ROOT=$(cd "$HERE/../.." && pwd)
T=$(mktemp -d /tmp/hunt-errfield.XXXXXX)
trap 'rm -rf "$T"' EXIT
(cd "$ROOT" && GOFLAGS=-mod=mod GOPROXY=off GOSUMDB=off GOTOOLCHAIN=local go build -o "$T/goverter" ./cmd/goverter) || exit 99
cp -r "$HERE/input" "$T/mod"
cd "$T/mod"
GOFLAGS= GOPROXY=off GOSUMDB=off GOTOOLCHAIN=local "$T/goverter" gen ./pkg >"$T/out" 2>"$T/err"
code=$?
echo "exit status: $code"
head -5 "$T/err"
if [ "$code" -ne 0 ] && [ "$code" -ne 1 ]; then
  echo "VIOLATION: exit status $code (neither 0 nor 1)"; exit 1
fi
if grep -q '^panic:' "$T/err"; then
  echo "VIOLATION: panic instead of diagnostic"; exit 1
fi
echo "ok"
exit 0
