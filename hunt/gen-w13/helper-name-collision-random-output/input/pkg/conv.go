package pkg

type Input struct{ Name string }
type Output struct{ Name string }

// The user took the name of a helper goverter generated earlier (pkgInputToPkgOutput) to
// declare a customised pointer variant of it.
//
// goverter:converter
// goverter:output:file ./conv.gen.go
// goverter:output:package example.com/collide/pkg
type Converter interface {
	ConvertAll(source []Input) []Output
	pkgInputToPkgOutput(source *Input) *Output
}
