module example.com/collide

go 1.18
