#!/bin/sh
# C09: emitted bytes must not change between identical runs.
# The interface declares a method whose name equals the name goverter derives for a generated
# helper (pkgInputToPkgOutput). The namer does not know the explicit method names, so a second
# method with the same name is generated; generator.getGenMethods then sorts the methods
# (collected by iterating a Go map) by name with the unstable sort.Slice, so the two equal-named
# methods are emitted in an order that varies from process to process.
HERE=$(cd "$(dirname "$0")" && pwd)
ROOT=$(cd "$HERE/../.." && pwd)
T=$(mktemp -d /tmp/hunt-coll.XXXXXX)
trap 'rm -rf "$T"' EXIT
(cd "$ROOT" && GOFLAGS=-mod=mod GOPROXY=off GOSUMDB=off GOTOOLCHAIN=local go build -o "$T/goverter" ./cmd/goverter) || exit 99
cp -r "$HERE/input" "$T/mod"
cd "$T/mod"
export GOFLAGS= GOPROXY=off GOSUMDB=off GOTOOLCHAIN=local
N=${N:-200}
i=0
: > "$T/sums"
while [ $i -lt $N ]; do
  i=$((i+1))
  rm -f pkg/conv.gen.go
  "$T/goverter" gen ./pkg >"$T/log" 2>&1
  code=$?
  if [ "$code" -ne 0 ]; then
    # a diagnostic (exit 1) would be a correct way to handle the collision
    echo "goverter refused the input (exit $code):"; head -5 "$T/log"; echo ok; exit 0
  fi
  sum=$(md5sum < pkg/conv.gen.go | cut -d' ' -f1)
  if ! grep -q "$sum" "$T/sums"; then echo "$sum" >> "$T/sums"; cp pkg/conv.gen.go "$T/variant.$(wc -l < "$T/sums")"; fi
  [ "$(wc -l < "$T/sums")" -ge 2 ] && break
done
n=$(wc -l < "$T/sums")
echo "distinct outputs after $i runs: $n"
if [ "$n" -ge 2 ]; then
  diff "$T/variant.1" "$T/variant.2"
  echo "VIOLATION: identical runs emit different bytes"
  exit 1
fi
echo ok
exit 0
