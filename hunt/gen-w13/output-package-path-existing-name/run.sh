#!/bin/sh
# C15: with 'output:package PATH' (no :NAME) the package clause is the name of the existing
# package PATH, else the normalised last path element (docs/reference/output.md: "If there is
# already a package name defined in the package, then it's used").
# The package example.com/api exists and is named apitypes, but goverter emits 'package api',
# which makes the directory uncompilable.
HERE=$(cd "$(dirname "$0")" && pwd)
ROOT=$(cd "$HERE/../.." && pwd)
T=$(mktemp -d /tmp/hunt-outpkg.XXXXXX)
trap 'rm -rf "$T"' EXIT
(cd "$ROOT" && GOFLAGS=-mod=mod GOPROXY=off GOSUMDB=off GOTOOLCHAIN=local go build -o "$T/goverter" ./cmd/goverter) || exit 99
cp -r "$HERE/input" "$T/mod"
cd "$T/mod"
export GOFLAGS= GOPROXY=off GOSUMDB=off GOTOOLCHAIN=local
go build ./... example.com/api || { echo "input does not compile"; exit 2; }
"$T/goverter" gen ./conv
code=$?
echo "exit status: $code"
[ "$code" -eq 0 ] || { echo "unexpected failure"; exit 2; }
clause=$(grep '^package ' api/conv.gen.go)
echo "existing package clause : $(grep '^package ' api/types.go)"
echo "generated package clause: $clause"
go vet example.com/api
vet=$?
if [ "$clause" != "package apitypes" ] || [ "$vet" -ne 0 ]; then
  echo "VIOLATION: generated file does not use the name of the existing package example.com/api"; exit 1
fi
echo ok
