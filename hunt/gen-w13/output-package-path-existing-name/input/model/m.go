package model

type Input struct{ Name string }
type Output struct{ Name string }
