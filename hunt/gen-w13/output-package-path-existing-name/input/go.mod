module example.com/app

go 1.18
