// Package apitypes is a separate module (example.com/api) living in the api directory.
package apitypes

type Version struct{ Name string }
