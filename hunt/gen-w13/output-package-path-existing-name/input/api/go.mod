module example.com/api

go 1.18

require example.com/app v0.0.0

replace example.com/app => ../
