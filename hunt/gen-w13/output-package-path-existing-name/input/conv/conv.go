package conv

import "example.com/app/model"

// The output goes into the nested module example.com/api. Its import path cannot be inferred
// from the file location, therefore it is given with output:package (path only, no :name).
//
// goverter:converter
// goverter:output:file ../api/conv.gen.go
// goverter:output:package example.com/api
type Converter interface {
	Convert(source model.Input) model.Output
}
