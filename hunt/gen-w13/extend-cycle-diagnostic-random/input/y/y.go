package y

import (
	"strconv"

	"example.com/cyc2/x"
)

const Suffix = "s"

func IntToString(i int) string { return x.Prefix + strconv.Itoa(i) }
