package x

import "example.com/cyc2/y"

func StringToBytes(s string) []byte { return []byte(s + y.Suffix) }

const Prefix = "p"
