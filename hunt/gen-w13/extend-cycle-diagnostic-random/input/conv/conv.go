package conv

type Input struct{ Name string; Age int }
type Output struct{ Name []byte; Age string }

// goverter:converter
// goverter:extend example.com/cyc2/x:StringToBytes
// goverter:extend example.com/cyc2/y:IntToString
type Converter interface {
	Convert(source Input) Output
}
