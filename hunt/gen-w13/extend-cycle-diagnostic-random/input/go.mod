module example.com/cyc2

go 1.18
