#!/bin/sh
# C09: the diagnostic must be a function of sources, settings and CLI options; repeating the run
# in a fresh process must not change it.
# Two extend packages (x, y) import each other. The converter package does not import them, so
# the fault is first seen by the second package load (pkgload), whose pattern list is built by
# iterating a Go map (config/package.go getPackages). 'go list' attributes an import cycle to the
# package it visits first, hence goverter reports 'failed to load package ".../x"' in most runs
# and 'failed to load package ".../y"' (with a different import stack) in about 1 of 8 runs.
HERE=$(cd "$(dirname "$0")" && pwd)
ROOT=$(cd "$HERE/../.." && pwd)
T=$(mktemp -d /tmp/hunt-cyc.XXXXXX)
trap 'rm -rf "$T"' EXIT
(cd "$ROOT" && GOFLAGS=-mod=mod GOPROXY=off GOSUMDB=off GOTOOLCHAIN=local go build -o "$T/goverter" ./cmd/goverter) || exit 99
cp -r "$HERE/input" "$T/mod"
cd "$T/mod"
export GOFLAGS= GOPROXY=off GOSUMDB=off GOTOOLCHAIN=local
N=${N:-150}
i=0
: > "$T/sums"
while [ $i -lt $N ]; do
  i=$((i+1))
  "$T/goverter" gen ./conv >"$T/out.$i" 2>&1
  code=$?
  [ "$code" -eq 1 ] || { echo "unexpected exit status $code"; cat "$T/out.$i"; exit 2; }
  sum=$(md5sum < "$T/out.$i" | cut -d' ' -f1)
  if ! grep -q "$sum" "$T/sums"; then echo "$sum $i" >> "$T/sums"; fi
  [ "$(wc -l < "$T/sums")" -ge 2 ] && break
done
n=$(wc -l < "$T/sums")
echo "distinct diagnostics after $i runs: $n"
if [ "$n" -ge 2 ]; then
  while read -r s k; do echo "----- run $k:"; cat "$T/out.$k"; done < "$T/sums"
  echo "VIOLATION: identical runs print different diagnostics"
  exit 1
fi
echo ok
exit 0
