module example.com/cyc

go 1.18
