package b

import "example.com/cyc/a"

var X = 1

var _ a.Input

type In struct{ Name string }
type Out struct{ Name string }

// goverter:converter
type Converter interface {
	Convert(source In) Out
}
