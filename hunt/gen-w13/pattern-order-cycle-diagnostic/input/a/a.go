package a

import "example.com/cyc/b"

type Input struct{ Name string }
type Output struct{ Name string }

var _ = b.X

// goverter:converter
type Converter interface {
	Convert(source Input) Output
}
