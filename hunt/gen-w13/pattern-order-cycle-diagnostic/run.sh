#!/bin/sh
# C09: permuting the package patterns must not change the diagnostic.
# Packages a and b (both contain converters) import each other. 'goverter gen ./a ./b' blames
# package a, 'goverter gen ./b ./a' blames package b (different package, different import stack).
# comments.ParseDocs sorts the loaded packages, but hands the patterns to 'go list' in the order
# given, and 'go list' attributes the cycle to the first pattern.
HERE=$(cd "$(dirname "$0")" && pwd)
ROOT=$(cd "$HERE/../.." && pwd)
T=$(mktemp -d /tmp/hunt-pord.XXXXXX)
trap 'rm -rf "$T"' EXIT
(cd "$ROOT" && GOFLAGS=-mod=mod GOPROXY=off GOSUMDB=off GOTOOLCHAIN=local go build -o "$T/goverter" ./cmd/goverter) || exit 99
cp -r "$HERE/input" "$T/mod"
cd "$T/mod"
export GOFLAGS= GOPROXY=off GOSUMDB=off GOTOOLCHAIN=local
"$T/goverter" gen ./a ./b >"$T/ab" 2>&1; c1=$?
"$T/goverter" gen ./b ./a >"$T/ba" 2>&1; c2=$?
echo "----- gen ./a ./b (exit $c1)"; cat "$T/ab"
echo "----- gen ./b ./a (exit $c2)"; cat "$T/ba"
if ! cmp -s "$T/ab" "$T/ba"; then echo "VIOLATION: diagnostic depends on the order of the package patterns"; exit 1; fi
echo ok
