#!/bin/sh
# C15: a goverter:variables block with 'output:file ../gen/conv.gen.go' and no output:package.
# The package clause must be the existing package at that location (gencode), else the
# normalised directory name (gen). goverter emits the DECLARING package's clause ('package conv')
# and unqualified references to conv's identifiers, so the output directory no longer compiles.
HERE=$(cd "$(dirname "$0")" && pwd)
ROOT=$(cd "$HERE/../.." && pwd)
T=$(mktemp -d /tmp/hunt-vars.XXXXXX)
trap 'rm -rf "$T"' EXIT
(cd "$ROOT" && GOFLAGS=-mod=mod GOPROXY=off GOSUMDB=off GOTOOLCHAIN=local go build -o "$T/goverter" ./cmd/goverter) || exit 99
export GOFLAGS= GOPROXY=off GOSUMDB=off GOTOOLCHAIN=local
bad=0
for variant in existing fresh; do
  rm -rf "$T/mod"; cp -r "$HERE/input" "$T/mod"; cd "$T/mod"
  want="package gencode"
  if [ "$variant" = fresh ]; then rm -rf gen; want="package gen"; fi
  go build ./... || { echo "input does not compile"; exit 2; }
  "$T/goverter" gen ./conv
  code=$?
  [ "$code" -eq 0 ] || { echo "[$variant] unexpected failure $code"; exit 2; }
  clause=$(grep '^package ' gen/conv.gen.go)
  echo "[$variant] expected '$want', generated '$clause'"
  go vet ./... 2>&1 | head -5
  if [ "$clause" != "$want" ]; then echo "[$variant] VIOLATION: wrong package clause"; bad=1; fi
  go build ./... >/dev/null 2>&1 || { echo "[$variant] VIOLATION: tree does not compile after generation"; bad=1; }
done
exit $bad
