package conv

type Input struct{ Name string }
type Output struct{ Name string }

// goverter:variables
// goverter:output:file ../gen/conv.gen.go
var (
	Convert func(source Input) Output
)
