// Package gencode holds generated code.
package gencode
