module example.com/vars

go 1.18
