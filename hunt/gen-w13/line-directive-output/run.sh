#!/bin/sh
# C15: output:file (default ./generated/generated.go) is relative to the DECLARING FILE
# (pkg/conv.go). With a //line directive in the declaring file goverter resolves it relative
# to the file named in the directive and writes <module>/templates/generated/generated.go
# although its package path (import path used for the package clause inference) stays pkg/generated.
HERE=$(cd "$(dirname "$0")" && pwd)
ROOT=$(cd "$HERE/../.." && pwd)
T=$(mktemp -d /tmp/hunt-line.XXXXXX)
trap 'rm -rf "$T"' EXIT
(cd "$ROOT" && GOFLAGS=-mod=mod GOPROXY=off GOSUMDB=off GOTOOLCHAIN=local go build -o "$T/goverter" ./cmd/goverter) || exit 99
cp -r "$HERE/input" "$T/mod"
cd "$T/mod"
GOFLAGS= GOPROXY=off GOSUMDB=off GOTOOLCHAIN=local "$T/goverter" gen ./pkg
code=$?
echo "exit status: $code"
echo "files after run:"; find . -type f | sort
[ "$code" -eq 0 ] || { echo "unexpected failure"; exit 2; }
bad=0
[ -f pkg/generated/generated.go ] || { echo "VIOLATION: pkg/generated/generated.go (relative to the declaring file) was not written"; bad=1; }
others=$(find . -type f ! -path ./go.mod ! -path ./pkg/conv.go ! -path ./pkg/generated/generated.go)
[ -z "$others" ] || { echo "VIOLATION: unexpected files written: $others"; bad=1; }
exit $bad
