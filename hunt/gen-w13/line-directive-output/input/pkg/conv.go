package pkg

type Input struct{ Name string }
type Output struct{ Name string }

// This file was rendered from a template; the line directive maps positions back to it
// (as done by code generators such as goyacc, templ, stringer-like tools, cgo).
//line ../templates/conv.go.tmpl:10

// goverter:converter
type Converter interface {
	Convert(source Input) Output
}
