module example.com/line

go 1.18
