#!/bin/sh
# C07: a fallible custom function (extend / map|FUNC / default / struct method) whose
# result type is an unnamed channel makes goverter emit `chan, err := f(..)`.
# exit 1 = violation present, exit 0 = goverter behaves correctly.
set -u
HERE=$(cd "$(dirname "$0")" && pwd)
ROOT=$(cd "$HERE/../.." && pwd)
export GOFLAGS=-mod=mod GOPROXY=off GOSUMDB=off GOTOOLCHAIN=local
TMP=$(mktemp -d /tmp/w14-chan.XXXXXX)
trap 'rm -rf "$TMP"' EXIT
(cd "$ROOT" && go build -o "$TMP/goverter" ./cmd/goverter) || { echo "cannot build goverter"; exit 2; }
cp -r "$HERE/mod" "$TMP/mod"
cd "$TMP/mod"
if ! "$TMP/goverter" gen . >"$TMP/gen.log" 2>&1; then
	cat "$TMP/gen.log"
	if grep -q "while formatting source" "$TMP/gen.log"; then
		echo "VIOLATION: goverter emitted invalid Go (keyword 'chan' used as variable name) for a fallible custom function"
		exit 1
	fi
	echo "goverter refused with a regular diagnostic (acceptable)"
	exit 0
fi
if ! go build ./... >"$TMP/build.log" 2>&1; then
	cat "$TMP/build.log"
	echo "VIOLATION: generated code does not compile"
	exit 1
fi
go run ./cmd/check
