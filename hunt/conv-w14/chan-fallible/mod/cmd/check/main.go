package main

import (
	"errors"
	"fmt"
	"os"

	stream "example.com/stream"
	"example.com/stream/generated"
)

func main() {
	c := &generated.ConverterImpl{}
	if _, err := c.Convert(stream.Subscription{Name: "a", Events: -1}); !errors.Is(err, stream.ErrNegative) {
		fmt.Println("VIOLATION: error of OpenStream not propagated:", err)
		os.Exit(1)
	}
	out, err := c.Convert(stream.Subscription{Name: "a", Events: 2})
	if err != nil || out.Events == nil || out.Name != "a" {
		fmt.Println("VIOLATION: non-failing call wrong:", out, err)
		os.Exit(1)
	}
	fmt.Println("ok: error propagated, nil error on success")
}
