package stream

import "errors"

// goverter:converter
// goverter:output:file ./generated/generated.go
// goverter:extend OpenStream
type Converter interface {
	Convert(source Subscription) (Feed, error)
}

var ErrNegative = errors.New("negative buffer size")

// OpenStream is a fallible custom function whose result is an unnamed channel type.
func OpenStream(buffer int) (<-chan int, error) {
	if buffer < 0 {
		return nil, ErrNegative
	}
	ch := make(chan int, buffer)
	close(ch)
	return ch, nil
}

type Subscription struct {
	Name   string
	Events int
}

type Feed struct {
	Name   string
	Events <-chan int
}
