module example.com/stream

go 1.18
