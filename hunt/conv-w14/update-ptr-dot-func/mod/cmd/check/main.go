package main

import (
	"errors"
	"fmt"
	"os"

	shop "example.com/shop"
	"example.com/shop/generated"
)

func main() {
	c := &generated.ConverterImpl{}
	var dto shop.OrderDTO
	if err := c.Update(&shop.Order{ID: "a"}, &dto); !errors.Is(err, shop.ErrNoItems) {
		fmt.Println("VIOLATION: error of ComputeTotal not propagated:", err)
		os.Exit(1)
	}
	if err := c.Update(&shop.Order{ID: "a", Prices: []int{1, 2}}, &dto); err != nil || dto.Total != 3 || dto.ID != "a" {
		fmt.Println("VIOLATION: non-failing call wrong:", dto, err)
		os.Exit(1)
	}
	fmt.Println("ok: error propagated, nil error on success")
}
