module example.com/shop

go 1.18
