package shop

import "errors"

// goverter:converter
// goverter:output:file ./generated/generated.go
type Converter interface {
	// goverter:update target
	// goverter:map . Total | ComputeTotal
	Update(source *Order, target *OrderDTO) error
}

var ErrNoItems = errors.New("order without items")

// ComputeTotal is a fallible map|FUNC custom function using the whole source struct.
func ComputeTotal(o Order) (int, error) {
	if len(o.Prices) == 0 {
		return 0, ErrNoItems
	}
	sum := 0
	for _, p := range o.Prices {
		sum += p
	}
	return sum, nil
}

type Order struct {
	ID     string
	Prices []int
}

type OrderDTO struct {
	ID     string
	Prices []int
	Total  int
}
