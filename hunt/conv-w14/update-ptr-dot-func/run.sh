#!/bin/sh
# C07: update signature with a pointer source and `goverter:map . FIELD | FUNC` (fallible FUNC):
# goverter passes the *pointer* `source` where it computed with the struct type, the generated
# file does not compile.
# exit 1 = violation present, exit 0 = goverter behaves correctly (compiling code that
# propagates the error, or a regular refusal diagnostic).
set -u
HERE=$(cd "$(dirname "$0")" && pwd)
ROOT=$(cd "$HERE/../.." && pwd)
export GOFLAGS=-mod=mod GOPROXY=off GOSUMDB=off GOTOOLCHAIN=local
TMP=$(mktemp -d /tmp/w14-upd.XXXXXX)
trap 'rm -rf "$TMP"' EXIT
(cd "$ROOT" && go build -o "$TMP/goverter" ./cmd/goverter) || { echo "cannot build goverter"; exit 2; }
cp -r "$HERE/mod" "$TMP/mod"
cd "$TMP/mod"
if ! "$TMP/goverter" gen . >"$TMP/gen.log" 2>&1; then
	cat "$TMP/gen.log"
	echo "goverter refused to generate (acceptable)"
	exit 0
fi
if ! go build ./... >"$TMP/build.log" 2>&1; then
	sed -n '/func (c \*ConverterImpl) Update/,/^}/p' generated/generated.go
	cat "$TMP/build.log"
	echo "VIOLATION: goverter exited 0 but the generated update method does not compile"
	exit 1
fi
go run ./cmd/check
