package ctxdup

import (
	"errors"
	"fmt"
)

// goverter:converter
// goverter:output:file ./generated/generated.go
// goverter:extend Format
type Converter interface {
	// goverter:context prefix
	// goverter:context suffix
	Convert(prefix string, suffix string, source Input) (Output, error)
}

type Label string

var ErrNegative = errors.New("negative")

// goverter:context prefix
// goverter:context suffix
func Format(prefix string, suffix string, v int) (Label, error) {
	if v < 0 {
		return "", ErrNegative
	}
	return Label(fmt.Sprint(prefix, v, suffix)), nil
}

type Input struct{ A int }
type Output struct{ A Label }
