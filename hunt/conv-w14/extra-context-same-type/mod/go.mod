module example.com/ctxdup

go 1.18
