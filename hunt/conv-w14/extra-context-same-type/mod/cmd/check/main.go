package main

import (
	"fmt"
	"os"

	ctxdup "example.com/ctxdup"
	"example.com/ctxdup/generated"
)

func main() {
	out, err := (&generated.ConverterImpl{}).Convert("<", ">", ctxdup.Input{A: 1})
	if err != nil || out.A != "<1>" {
		fmt.Printf("WRONG: got %q, %v; want \"<1>\" (both context parameters received the same argument)\n", out.A, err)
		os.Exit(1)
	}
	fmt.Println("ok")
}
