#!/bin/sh
# EXTRA (outside C04/C07): two goverter:context parameters of the same type are keyed by type
# string; the custom function receives the last one for both parameters.
set -u
HERE=$(cd "$(dirname "$0")" && pwd)
ROOT=$(cd "$HERE/../.." && pwd)
export GOFLAGS=-mod=mod GOPROXY=off GOSUMDB=off GOTOOLCHAIN=local
TMP=$(mktemp -d /tmp/w14-ctx.XXXXXX)
trap 'rm -rf "$TMP"' EXIT
(cd "$ROOT" && go build -o "$TMP/goverter" ./cmd/goverter) || { echo "cannot build goverter"; exit 2; }
cp -r "$HERE/mod" "$TMP/mod"
cd "$TMP/mod"
if ! "$TMP/goverter" gen . >"$TMP/gen.log" 2>&1; then
	cat "$TMP/gen.log"
	echo "goverter refused to generate (acceptable)"
	exit 0
fi
grep -n "Format(" generated/generated.go
go build ./... || { echo "generated code does not compile"; exit 1; }
go run ./cmd/check
