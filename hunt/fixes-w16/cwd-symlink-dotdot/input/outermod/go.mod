module example.com/outer

go 1.22
