#!/bin/bash
# c12c174 / 083441e: a relative -cwd that goes through a symbolic link and then '..'
# ('-cwd link/..', link -> real/mod/sub) is joined lexically to the working directory,
# so it names the process directory instead of real/mod (what the OS resolves it to,
# and what 75eca26 used because it handed the relative path to the go command).
. "$(dirname "$0")/../common.sh"
bad=0
# variant A: the process directory is no module -> load error
mkdir -p "$TMP/a/real" "$TMP/a/outer"
cp -a "$HERE/input/mod" "$TMP/a/real/mod"
ln -s ../real/mod/sub "$TMP/a/outer/link"
cd "$TMP/a/outer" || exit 2
echo "A: ls link/.. (what the OS resolves): $(ls link/.. | tr '\n' ' ')"
"$BIN" gen -cwd link/.. ./... ; rc=$?
echo "A: exit status: $rc"
if [ $rc -eq 0 ] && [ -f "$TMP/a/real/mod/conv/generated/generated.go" ]; then
  echo "A: OK: real/mod/conv/generated/generated.go written"
else
  echo "A: PROBLEM: '-cwd link/..' did not generate into the module the OS resolves link/.. to"; bad=1
fi
# variant B: the process directory is a module of its own -> the wrong module is generated, exit 0
mkdir -p "$TMP/b/real"
cp -a "$HERE/input/mod" "$TMP/b/real/mod"
cp -a "$HERE/input/outermod" "$TMP/b/outer"
ln -s ../real/mod/sub "$TMP/b/outer/link"
cd "$TMP/b/outer" || exit 2
"$BIN" gen -cwd link/.. ./... ; rc=$?
echo "B: exit status: $rc; generated files: $(cd "$TMP/b" && find . -name generated.go | tr '\n' ' ')"
if [ $rc -eq 0 ] && [ -f "$TMP/b/real/mod/conv/generated/generated.go" ] && [ ! -e "$TMP/b/outer/conv/generated" ]; then
  echo "B: OK"
else
  echo "B: PROBLEM: the module in the process directory was generated instead of link/.."; bad=1
fi
exit $bad
