package cg

/*
#include <stdint.h>
typedef struct { int32_t a; } s;
*/
import "C"

type X C.s

// goverter:converter
type C2 interface {
	Conv(In) Out
}

type In struct{ A int; B []string }
type Out struct{ A int; B []string }
