#!/bin/bash
# 8bddab6: GOFLAGS=-cover + cgo package (no //line directive in the user's source at all):
# the converter output is written below the go build temp dir instead of cg/generated/.
. "$(dirname "$0")/../common.sh"
cp -a "$HERE/input" "$TMP/m"
mkdir "$TMP/gotmp"
cd "$TMP/m" || exit 2
GOTMPDIR="$TMP/gotmp" GOFLAGS=-cover "$BIN" gen ./... ; rc=$?
echo "exit status: $rc"
echo "stray files below GOTMPDIR:"; find "$TMP/gotmp" -type f
if [ -f "$TMP/m/cg/generated/generated.go" ]; then
  echo "OK: cg/generated/generated.go written"; exit 0
fi
echo "PROBLEM: cg/generated/generated.go missing although exit status was $rc"
exit 1
