package t
type In struct{ A int; B []string }
type Out struct{ A int; B []string }
