package b

import "example.com/m/t"

// goverter:variables
// goverter:output:file @cwd/gen/out.go
// goverter:output:package example.com/m/gen
var (
	ConvXAB func(t.In) t.Out
)
