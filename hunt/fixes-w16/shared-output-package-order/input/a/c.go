package a

import "example.com/m/t"

// goverter:variables
// goverter:output:file @cwd/gen/out.go
// goverter:output:package example.com/m/gen
var (
	ConvXA func(t.In) t.Out
)
