package ab

import "example.com/m/t"

// goverter:variables
// goverter:output:file @cwd/gen/out.go
// goverter:output:package example.com/m/gen
var (
	ConvXADB func(t.In) t.Out
)
