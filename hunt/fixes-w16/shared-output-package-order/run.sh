#!/bin/bash
# 7f083a9 (behaviour change, low severity): goverter:variables blocks of the packages m/a, m/a/b
# and m/a-b are routed into one output file (@cwd/gen/out.go). 75eca26 emitted them in the order
# the go command lists './...' (a, a/b, a-b); HEAD sorts the packages by import path string
# (a, a-b, a/b; '-' < '/'), so the committed generated file of an unchanged project changes
# when it is regenerated with HEAD ('git diff --exit-code' checks in CI fail).
. "$(dirname "$0")/../common.sh"
cp -a "$HERE/input" "$TMP/m"
cd "$TMP/m" || exit 2
"$BIN" gen ./... ; rc=$?
echo "exit status: $rc"
grep -n 'Conv.* = func' gen/out.go
first=$(grep -n 'b.ConvXAB = ' gen/out.go | head -1 | cut -d: -f1)
second=$(grep -n 'ab.ConvXADB = ' gen/out.go | head -1 | cut -d: -f1)
if [ -n "$first" ] && [ -n "$second" ] && [ "$first" -lt "$second" ]; then echo "OK: order as at 75eca26"; exit 0; fi
echo "PROBLEM: order of the init blocks differs from the one 75eca26 generated"
exit 1
