#!/bin/bash
# ce35d4c (incomplete): absolute output:file <root>/mod/lnk/../newdir/out.go, lnk -> ../other/deep.
# The OS resolves the path to <root>/other/newdir/out.go. When that directory does not exist yet,
# cleanOutputPath falls back to the lexically cleaned path and the file is silently written to
# <root>/mod/newdir/out.go - the very defect the commit message describes. (75eca26 did not clean
# the path: it fails with 'no such file or directory' and writes no file into the wrong directory;
# once other/newdir exists both versions write there.)
. "$(dirname "$0")/../common.sh"
mkdir -p "$TMP/other/deep"
cp -a "$HERE/input/mod" "$TMP/mod"
ln -s ../other/deep "$TMP/mod/lnk"
sed "s#@ROOT@#$TMP#" "$TMP/mod/conv/conv.go.tmpl" > "$TMP/mod/conv/conv.go"; rm "$TMP/mod/conv/conv.go.tmpl"
cd "$TMP/mod" || exit 2
"$BIN" gen ./... ; rc=$?
echo "exit status: $rc; out.go files: $(cd "$TMP" && find . -name out.go | tr '\n' ' ')"
if [ -f "$TMP/mod/newdir/out.go" ]; then
  echo "PROBLEM: output written to mod/newdir/out.go, but $TMP/mod/lnk/../newdir is other/newdir for the OS"
  exit 1
fi
echo "OK: nothing written to the lexically cleaned location"
exit 0
