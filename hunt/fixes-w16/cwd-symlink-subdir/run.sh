#!/bin/bash
# c12c174 / 083441e: a relative -cwd that names a symbolic link ('-cwd link', link -> ../mod/conv,
# a package directory below the module root) is made absolute by joining it to the working
# directory; the go command then trusts that spelling ($PWD) and looks for go.mod in the
# parents of the LINK (outer/) instead of the parents of the directory (mod/): nothing is
# generated, exit status 0. 75eca26 handed the relative path to the go command, which
# resolved it physically and generated mod/conv/generated/generated.go.
. "$(dirname "$0")/../common.sh"
cp -a "$HERE/input/mod" "$TMP/mod"
mkdir "$TMP/outer"
ln -s ../mod/conv "$TMP/outer/link"
cd "$TMP/outer" || exit 2
"$BIN" gen -cwd link . ; rc=$?
echo "exit status: $rc; generated: $(cd "$TMP" && find . -name generated.go | tr '\n' ' ')"
if [ -f "$TMP/mod/conv/generated/generated.go" ]; then echo "OK"; exit 0; fi
echo "PROBLEM: nothing generated for '-cwd link' (exit status $rc)"
exit 1
