package conv

// goverter:converter
type C interface {
	Conv(In) Out
}

type In struct{ A int; B []string }
type Out struct{ A int; B []string }
