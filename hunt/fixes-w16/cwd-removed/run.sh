#!/bin/bash
# c12c174 / 083441e: the process working directory was removed (rmdir by another process);
# a relative -cwd ('../mod') still resolves for the OS (and worked at 75eca26), HEAD fails
# with 'getwd: no such file or directory' because it calls os.Getwd first.
. "$(dirname "$0")/../common.sh"
cp -a "$HERE/input/mod" "$TMP/mod"
mkdir "$TMP/gone"
cd "$TMP/gone" || exit 2
rmdir "$TMP/gone"
"$BIN" gen -cwd ../mod ./... ; rc=$?
echo "exit status: $rc"
if [ $rc -eq 0 ] && [ -f "$TMP/mod/conv/generated/generated.go" ]; then
  echo "OK: generated"; exit 0
fi
echo "PROBLEM: relative -cwd from a removed working directory fails"
exit 1
