package conv

// goverter:converter
// goverter:output:file ../gen/out.go
// goverter:output:package example.com/m/gen
type A interface {
	Conv(In) Out
}

// goverter:converter
// goverter:output:file ../lnkgen/out.go
// goverter:output:package example.com/m/gen
type B interface {
	Conv(In) Out
}

type In struct{ A int; B []string }
type Out struct{ A int; B []string }
