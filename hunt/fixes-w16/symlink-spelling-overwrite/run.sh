#!/bin/bash
# 65ffa77 / ce35d4c (incomplete): two converters select the same output file through different
# spellings (../gen/out.go and ../lnkgen/out.go, lnkgen -> gen). They are still rendered into
# two file manager entries, one overwrites the other on disk (now always the 'lnkgen' one, it
# sorts last): AImpl is lost, exit status 0. Same defect as at 75eca26 (there in random order).
. "$(dirname "$0")/../common.sh"
cp -a "$HERE/input" "$TMP/m"
ln -s gen "$TMP/m/lnkgen"
cd "$TMP/m" || exit 2
"$BIN" gen ./... ; rc=$?
echo "exit status: $rc; types in gen/out.go: $(grep '^type' gen/out.go | tr '\n' ' ')"
if [ $rc -ne 0 ]; then echo "OK: refused"; exit 0; fi
if grep -q 'type AImpl' gen/out.go && grep -q 'type BImpl' gen/out.go; then echo "OK: both converters in the file"; exit 0; fi
echo "PROBLEM: one converter overwrote the other, exit status 0"
exit 1
