# sourced by the run.sh scripts. Provides $BIN (goverter CLI) and $TMP (scratch directory, removed on exit).
# GOVERTER_BIN=<path> uses a prebuilt CLI (e.g. one built from 75eca26) instead of building HEAD.
set -u
HERE=$(cd "$(dirname "$0")" && pwd)
ROOT=$(cd "$HERE/../.." && pwd)
TMP=$(mktemp -d /tmp/hunt-w16.XXXXXX)
trap 'rm -rf "$TMP"' EXIT
export GOPROXY=off GOSUMDB=off GOTOOLCHAIN=local
if [ -n "${GOVERTER_BIN:-}" ]; then
  BIN=$GOVERTER_BIN
else
  BIN=$TMP/goverter
  (cd "$ROOT" && GOFLAGS=-mod=mod go build -o "$BIN" ./cmd/goverter) || { echo "build failed"; exit 2; }
fi
export GOFLAGS=
