#!/bin/bash
# commit 65ffa77: absolute output:file paths are now passed through filepath.Clean, which
# removes "x/.." lexically. When x is a symbolic link the cleaned path names ANOTHER file than
# the path the user wrote (the OS resolves lnk/.. to the parent of the link target).
#   module root: lnk -> other/deep ;  output:file <root>/lnk/../out/gen.go
#   OS meaning : <root>/other/out/gen.go   (written at 75eca26)
#   HEAD       : <root>/out/gen.go         (directory is created, other/out stays empty)
. "$(dirname "$0")/../lib.sh"
cp -a "$HUNT/abs-output-dotdot-symlink/input" "$TMP/m"
cd "$TMP/m"
mkdir -p other/deep other/out
ln -s other/deep lnk
sed "s#@ROOT@#$TMP/m#" pkg/p.go.in > pkg/p.go; rm pkg/p.go.in
"$BIN" gen ./pkg > "$TMP/out.txt" 2>&1; rc=$?
cat "$TMP/out.txt"; echo "exit status: $rc"
echo "files written:"; find . -name gen.go
if [ -f other/out/gen.go ]; then echo "OK: written where the configured path points to"; exit 0; fi
echo "PROBLEM: $TMP/m/lnk/../out/gen.go (= other/out/gen.go) was not written"
exit 1
