package d

// the same configuration on an interface converter (control: refused with "must be exported")

// goverter:converter
// goverter:output:file ../dgen/out.go
// goverter:extend conv
type Conv interface {
	Convert(In) Out
}

func conv(i int) string { return "" }

type In struct {
	A string
	B int
}
type Out struct {
	A string
	B string
}
