package a

// goverter:variables
// goverter:output:file ../agen/out.go
// goverter:extend conv
var (
	Convert func(In) Out
)

func conv(i int) string { return "" }

type In struct {
	A string
	B int
}
type Out struct {
	A string
	B string
}
