#!/bin/bash
# commit c5af108: "infer the package of a goverter:variables block written into another
# directory ... like for interface converters". The output package is inferred only after
# all converter lines were parsed; goverter:extend lines are checked against the stale
# OutputPackagePath (= declaring package). An unexported extend function passes the check
# and the file written into the other package references 'a.conv': exit 0, does not compile.
# The interface converter with the same lines (input/d) is refused with "must be exported".
# 75eca26: exit 0 and a non-compiling file as well (wrong package clause) -> incomplete repair.
. "$(dirname "$0")/../lib.sh"
cp -a "$HUNT/variables-extend-unexported/input" "$TMP/m"
cd "$TMP/m"
"$BIN" gen ./d > "$TMP/outd.txt" 2>&1; echo "[control, interface] exit status: $? : $(grep -c 'must be exported' "$TMP/outd.txt") x 'must be exported'"
"$BIN" gen ./a > "$TMP/out.txt" 2>&1; rc=$?
cat "$TMP/out.txt"; echo "[variables] exit status: $rc"
if [ $rc -ne 0 ]; then
  echo "OK: refused with a diagnostic"; exit 0
fi
if go vet ./a/... ./agen/...; then
  echo "OK: generated code compiles"; exit 0
fi
echo "PROBLEM: exit status 0, but agen/out.go does not compile:"
grep -n "conv(" agen/out.go
exit 1
