//line tmpl/c.go.tmpl:1
package cgotop

// #include <stdlib.h>
import "C"

// goverter:converter
type Conv interface {
	Convert(In) Out
}

type In struct{ A string }
type Out struct{ A string }

var _ = C.free
