package mid

//line tmpl/a.go.tmpl:10
// goverter:converter
type Conv interface {
	Convert(In) Out
}

type In struct{ A string }
type Out struct{ A string }
