#!/bin/bash
# commits a65ca41 / c775ed1 / d3b6244: "a //line directive in the declaring file no longer
# moves the output" + "name the declaring file by the start of a preprocessed copy".
# HEAD takes Position(file.Package) of a preprocessed copy (cgo, GOFLAGS=-cover). When the
# source file carries its //line directive BEFORE the package clause (the usual place for
# files produced from a template / goyacc), that position is already renamed by the user's
# directive; a relative name is resolved against the directory of the copy = the Go build
# cache. The output is still moved, and lands inside GOCACHE.
#   top/    : plain file, '//line tmpl/a.go.tmpl:1' first line   (affected under -cover)
#   cgotop/ : cgo file,   '//line tmpl/c.go.tmpl:1' first line   (affected always)
#   mid/    : directive after the package clause                 (control: repaired at HEAD)
. "$(dirname "$0")/../lib.sh"
export GOCACHE="$TMP/gocache"      # private cache so the stray files are removed with $TMP
bad=0
for flags in "-mod=mod" "-mod=mod -cover"; do
  rm -rf "$TMP/m"; cp -a "$HUNT/line-before-package-cover/input" "$TMP/m"
  cd "$TMP/m"
  GOFLAGS="$flags" "$BIN" gen ./... > "$TMP/out.txt" 2>&1; rc=$?
  cat "$TMP/out.txt"; echo "[GOFLAGS=$flags] exit status: $rc"
  for p in top cgotop mid; do
    if [ -f "$TMP/m/$p/generated/generated.go" ]; then
      echo "  $p: ok ($p/generated/generated.go)"
    else
      echo "  $p: PROBLEM: $p/generated/generated.go missing"
      bad=1
    fi
  done
  stray=$(find "$GOCACHE" -name generated.go)
  if [ -n "$stray" ]; then
    echo "  PROBLEM: output written into the Go build cache:"; echo "$stray" | sed 's/^/    /'
    bad=1
    find "$GOCACHE" -type d -name tmpl -prune -exec rm -rf {} +
  fi
done
exit $bad
