package m

// goverter:converter
type Conv[T any] interface {
	Convert(In) Out
}

type In struct{ A string }
type Out struct{ A string }
