package use

import (
	m "example.com/m"
	"example.com/m/generated"
)

// the implementation generated at 75eca26 satisfies every instantiation of the interface
var _ m.Conv[int] = &generated.ConvImpl{}
