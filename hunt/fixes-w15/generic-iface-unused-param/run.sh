#!/bin/bash
# commit 0818067: a generic converter interface whose methods do not mention the type
# parameter generated fine at 75eca26 (exit 0, compiling output); HEAD refuses it.
. "$(dirname "$0")/../lib.sh"
cp -a "$HUNT/generic-iface-unused-param/input" "$TMP/m"
cd "$TMP/m"
"$BIN" gen . > "$TMP/out.txt" 2>&1; rc=$?
cat "$TMP/out.txt"; echo "exit status: $rc"
if [ $rc -ne 0 ] && grep -q "Generic converter interfaces are not supported" "$TMP/out.txt"; then
  echo "PROBLEM: generic interface without use of its type parameter is refused"
  exit 1
fi
go vet ./... || { echo "generated code does not compile"; exit 1; }
echo "OK: generated and compiles"
exit 0
