#!/bin/bash
# commit 0030f11: "uintptr and unsafe.Pointer element types no longer panic ... Both basic
# kinds are now rendered". The TYPE is rendered now, but xtype.Type.ID() still derives
# variable names from BasicType.String() = "unsafe.Pointer", which is no identifier:
#   list/ struct field []unsafe.Pointer -> []*unsafe.Pointer
#         75eca26: panic "unsupported type 18", exit 2, nothing written
#         HEAD   : exit 0, writes 'pUnsafe.Pointer := source.H[i]' -> file does not compile
#   vars/ goverter:variables func([]unsafe.Pointer) []*unsafe.Pointer
#         75eca26: panic, exit 2
#         HEAD   : exit 1 "expected type, found '.' while formatting source" + source dump
# (informational, NOT caused by these commits, identical at 75eca26:
#   ptr/  *unsafe.Pointer -> *unsafe.Pointer emits 'xunsafe.Pointer := *source.D', exit 0)
. "$(dirname "$0")/../lib.sh"
cp -a "$HUNT/unsafe-pointer-ident/input" "$TMP/m"
cd "$TMP/m"
bad=0

"$BIN" gen ./list > "$TMP/out.txt" 2>&1; rc=$?
head -3 "$TMP/out.txt" | cut -c1-160; echo "[list] exit status: $rc"
if [ $rc -eq 0 ]; then
  if go vet ./list/... ; then echo "[list] ok"; else
    echo "PROBLEM [list]: exit status 0 but the generated file does not compile:"
    grep -n "pUnsafe" list/generated/generated.go; bad=1
  fi
else
  echo "[list] generation still fails (status $rc): repair did not make the []unsafe.Pointer field convertible"; bad=1
fi

"$BIN" gen ./vars > "$TMP/out.txt" 2>&1; rc=$?
head -2 "$TMP/out.txt" | cut -c1-160; echo "[vars] exit status: $rc"
if [ $rc -ne 0 ]; then
  echo "PROBLEM [vars]: []unsafe.Pointer element type still cannot be generated"; bad=1
elif ! go vet ./vars/...; then
  echo "PROBLEM [vars]: generated file does not compile"; bad=1
fi

"$BIN" gen ./ptr > "$TMP/out.txt" 2>&1; rc=$?
echo "[ptr] (informational, same at 75eca26) exit status: $rc"; go vet ./ptr/... 2>&1 | tail -1
exit $bad
