package ptr

import "unsafe"

// goverter:converter
type Conv interface {
	Convert(In) Out
}

type In struct{ D *unsafe.Pointer }
type Out struct{ D *unsafe.Pointer }
