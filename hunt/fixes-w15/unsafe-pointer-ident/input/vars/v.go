package vars

import "unsafe"

// goverter:variables
var (
	ConvertL func([]unsafe.Pointer) []*unsafe.Pointer
)
