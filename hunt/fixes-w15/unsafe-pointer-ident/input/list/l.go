package list

import "unsafe"

// goverter:converter
type Conv interface {
	Convert(In) Out
}

type In struct{ H []unsafe.Pointer }
type Out struct{ H []*unsafe.Pointer }
