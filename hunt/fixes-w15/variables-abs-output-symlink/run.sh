#!/bin/bash
# commit c5af108: a goverter:variables block whose (absolute) output:file lies in the
# DECLARING directory, but is spelled through a symbolic link. resolvePackage() compares
# paths lexically (filepath.Rel), so HEAD believes the file goes into another package
# ("example.com/link/m/pkg"), drops the declaring package and emits
#   package pkg; import pkg "example.com/m/pkg"; pkg.Convert = ...
# i.e. a file that imports its own package (import cycle). 75eca26 ignored the location for
# variables blocks and wrote a correct file (package pkg, unqualified names).
# input/pkg/p.go.in is instantiated with the absolute link path (@LINK@).
. "$(dirname "$0")/../lib.sh"
mkdir -p "$TMP/real"
cp -a "$HUNT/variables-abs-output-symlink/input" "$TMP/real/m"
ln -s real "$TMP/link"
sed "s#@LINK@#$TMP/link#" "$TMP/real/m/pkg/p.go.in" > "$TMP/real/m/pkg/p.go"; rm "$TMP/real/m/pkg/p.go.in"
cd "$(cd "$TMP/real/m" && pwd -P)"
"$BIN" gen ./pkg > "$TMP/out.txt" 2>&1; rc=$?
cat "$TMP/out.txt"; echo "exit status: $rc"
[ $rc -eq 0 ] || { echo "PROBLEM: generation failed"; exit 1; }
sed -n 4,9p pkg/out.gen.go
if go vet ./... ; then echo "OK: compiles"; exit 0; fi
echo "PROBLEM: generated file in the declaring directory imports its own package"
exit 1
