#!/bin/bash
# commit c12c174: a relative -cwd is now resolved lexically against $PWD (filepath.Abs).
# Inside a directory entered through a symbolic link '-cwd ..' used to be resolved by the
# kernel (chdir ".." = physical parent = module root) and worked at 75eca26; at HEAD it names
# the parent of the link, where no module is: nothing is generated and the exit status is 0.
. "$(dirname "$0")/../lib.sh"
mkdir -p "$TMP/real"
cp -a "$HUNT/cwd-dotdot-symlink/input" "$TMP/real/m"
ln -s real/m/deep "$TMP/dlink"          # $TMP/dlink -> $TMP/real/m/deep
cd "$TMP/dlink" || exit 2               # PWD=$TMP/dlink (bash keeps the logical path)
echo "PWD=$PWD  physical=$(pwd -P)"
"$BIN" gen -cwd .. ./deep > "$TMP/out.txt" 2>&1; rc=$?
cat "$TMP/out.txt"; echo "exit status: $rc"
if [ -f "$TMP/real/m/deep/generated/generated.go" ]; then
  echo "OK: converter generated"
  exit 0
fi
echo "PROBLEM: no output generated (exit status $rc) for 'gen -cwd .. ./deep' inside a symlinked directory"
exit 1
