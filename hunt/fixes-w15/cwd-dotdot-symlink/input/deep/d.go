package deep

// goverter:converter
type Conv interface {
	Convert(In) Out
}

type In struct{ A string }
type Out struct{ A string }
