# shared helpers for the run.sh scripts; source it.
# GOVERTER_BIN=<path> overrides the binary under test (default: built from the worktree HEAD).
export GOFLAGS=-mod=mod GOPROXY=off GOSUMDB=off GOTOOLCHAIN=local
HUNT=$(cd "$(dirname "${BASH_SOURCE[0]}")" && pwd)
ROOT=$(cd "$HUNT/.." && pwd)
TMP=$(mktemp -d /tmp/hunt-w15-XXXXXX)
trap 'chmod -R u+w "$TMP" 2>/dev/null; rm -rf "$TMP"' EXIT
if [ -n "$GOVERTER_BIN" ]; then
  BIN=$GOVERTER_BIN
else
  BIN=$TMP/goverter
  (cd "$ROOT" && go build -o "$BIN" ./cmd/goverter) || { echo "build failed"; exit 2; }
fi
# build_old: builds the CLI of 75eca26 into $TMP/goverter-old
build_old() {
  mkdir -p "$TMP/oldsrc"
  (cd "$ROOT" && git archive 75eca26 | tar -x -C "$TMP/oldsrc") || exit 2
  (cd "$TMP/oldsrc" && go build -o "$TMP/goverter-old" ./cmd/goverter) || exit 2
}
