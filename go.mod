module verif

go 1.23

require (
	golang.org/x/tools v0.25.0
	gopkg.in/yaml.v3 v3.0.1
	pgregory.net/rapid v1.3.0
)

require (
	golang.org/x/mod v0.21.0 // indirect
	golang.org/x/sync v0.8.0 // indirect
)
