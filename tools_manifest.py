#!/usr/bin/env python3
"""Regenerates MANIFEST.json from one place (kept in git so edits are reviewable)."""
import json, sys

NA = {
 "C01": "pure function of (input packages, settings): no schedule, fault, clock or history occurs in 'emitted code compiles and implements the declared API' once C09 has shown map order and environment do not reach the output; deterministic simulation has nothing to vary (DESIGN 6)",
 "C02": "pure function of (generated program, runtime value): single-threaded, no callee that can fail, no I/O; input generation is not simulation (DESIGN 6)",
 "C03": "pure predicate over (type pair, settings); no nondeterminism or fault surface (DESIGN 6)",
 "C05": "field-source selection is a pure function of (struct pair, settings, value) (DESIGN 6)",
 "C06": "which custom function is called where is a pure function of (program, settings, value); the functions involved do not fail or block (DESIGN 6)",
 "C08": "enum mapping and unknown-value policy are a pure function of (enum pair, settings, value) (DESIGN 6)",
 "C10": "which fields an update method writes is a pure function of (program, settings, pre-state, source value); target is caller-owned and single-threaded (DESIGN 6)",
 "C11": "pointer/default semantics are a pure function of (program, settings, value) (DESIGN 6)",
 "C12": "precedence and validation of settings is a pure function of configuration text (DESIGN 6)",
 "C13": "goverter is sequential and timer-free; 'terminates without panic on every input' quantifies over inputs only (a fuzzing/proof target); nothing a scheduler or fault injector controls changes the outcome (DESIGN 6)",
 "C14": "role classification of parameters is a pure function of the declared signature and settings (DESIGN 6)",
 "C18": "import set and top-level declarations are a static property of emitted text (C04's schedule check catches the behavioural consequence of hidden package state) (DESIGN 6)",
 "C19": "which comment lines are settings is a pure function of source text (DESIGN 6)",
}

CHECKS = {
 "C09": dict(engine="gensim", category="exploration", ref="4.4",
   technique="deterministic simulation: goverter CLI as a node with seam-controlled map iteration order, goroutine order (inline/deferred), wall clock/pid, process environment and the go command's file-age (2 s module-index) regime, on a simulated disk; seeded search over order plans, pattern/cwd/location variants and edit/corrupt/crash/regenerate histories; refinement against the clean-tree identity-order reference",
   text="Seeded exploration, not a proof: every fault-free generation in every explored history (scenario corpus, parametric multi-defect/tie templates, combined scenarios) must equal - in exit status, normalised diagnostic and produced bytes - the node's own run in canonical map order on a pristine copy of the same inputs. Map order is perturbed per range site (systematic per-site reverse + seeded permutations), which turns 1-in-8 native flakes into first-plan hits and names the culpable range statement.",
   note="Trusted: the seam rewrite (validated each run against the unmodified binary), x/tools packages.Load and the go list child (real, uncontrolled; measured stable), canonical %#v key order. Premise: prior outputs are absent or keep their two header lines (torn-header files are user sources to the go tool)."),
 "C15": dict(engine="gensim", category="exploration", ref="4.5",
   technique="deterministic simulation: node on a simulated disk observed at the disk seam (every mutating call with path and mode), under drawn cwd/-cwd/umask/location and prior tree states; oracle = independent path+package model written from docs/reference/output.md",
   text="Seeded exploration over layout worlds (output:file forms x output:package forms x existing target packages x shared files x invocation directory x umask x earlier runs): the set of created/modified paths must equal the model's prediction exactly, package clauses must match the model, MkdirAll/WriteFile must be called with 0755/0644, on-disk modes of new entries must equal arg &^ umask, same-file/different-package must fail and write nothing.",
   note="The layout x setting product is seeded input generation; what simulation adds is observation at the disk seam (mode arguments before umask), environment variation (cwd forms, umask) and prior state. Model covers the documented forms only (relative, parent, @cwd, absolute inside the module; path, path:name, :name, absent)."),
 "C16": dict(engine="gensim", category="exploration", ref="4.6",
   technique="deterministic simulation: histories edit -> generate -> corrupt/tear/crash -> regenerate on a simulated disk with crash faults; bounded liveness (one fault-free run after faults stop) + header invariant on every emitted file",
   text="Seeded histories over layouts (separate package, same package, shared file, several files per package) and build-tag/constraint pairs: every emitted file must start with the generated header and exactly the configured //go:build line (none when configured empty); whenever the inputs are valid, the pair is complementary and every prior output is absent or header-intact (current, outdated, garbage, truncated after the header, left by a crashed run), ONE fault-free regeneration must exit 0 and equal the clean-tree reference.",
   note="Premise as in C09: a file torn inside its header carries no constraint and is a user source to the go tool; such states are counted as observations, not violations. Non-complementary pairs get the header oracle only."),
 "C17": dict(engine="gensim", category="fault_enumeration", ref="4.7",
   technique="deterministic simulation with fault injection: for each world every non-empty subset of converters made defective (stage drawn per member), every mutating disk call x every fault kind (err/ENOSPC/EACCES/EIO/EROFS, create-then-err, short write, partial mkdir, crash before/after/torn), and a CLI argv grammar; observation of exit status, stderr, seam log and full tree snapshots (content, mode, mtime, inode)",
   text="Fault enumeration per world: with any subset of converters defective the run must exit exactly 1 with a diagnostic, issue zero mutating disk calls and leave the tree snapshot identical (mtime/inode included); with an error-type disk fault at any call it must exit 1 and print the injected error; exit 0 implies every predicted file exists and equals the reference; help exits 0 and usage errors exit 1 without touching the tree.",
   note="No atomicity under disk errors is demanded (the property promises none): partially written trees after an injected disk error are legal as long as the exit status is 1. Which declaration the diagnostic names is C13's subject and only recorded."),
 "C04": dict(engine="convsim", category="exploration", ref="5.3",
   technique="deterministic simulation: generated converter code with a yield before every statement, 1-4 caller tasks under a seeded cooperative scheduler (exactly one runnable), seam-controlled map iteration inside generated code; invariants after every step + history checks against the sequential result",
   text="Seeded exploration of interleavings of concurrent calls of the same generated method on shared (S) and shape-equal distinct (D) sources with internal sharing: source snapshot and pointer graph unchanged after every step, every result equals the materialised uninterrupted result, address sets of mutable memory of source and result are disjoint, mutate-and-compare twin; skipCopySameType worlds: sharing only at identical-type positions.",
   note="Sampled schedules, bounded values (<= ~60 nodes, <= 4 tasks). The -race auxiliary (thorough tier) is labelled as not simulation."),
 "C07": dict(engine="convsim", category="fault_enumeration", ref="5.4",
   technique="deterministic simulation with fault injection: value-keyed failpoints in every fallible custom function of seeded converter worlds; every single reached call failed in turn (exhaustive per execution), sampled multi-fault sets, under seam-controlled map order, for the three wrapping modes; oracle = independent location walker over (spec, value)",
   text="For each sampled (world, method, value): dry run collects the reached custom-function calls; each one alone and sampled subsets are made to fail; the returned error must wrap an injected error, the wrapErrorsUsing element concatenation must equal the walker's location exactly, the wrapErrors chain must be an in-order subsequence of it, no fault => nil error and result equal to the infallible twin; methods lacking an error result with a reachable fallible function must be refused at generation time.",
   note="Exhaustive over single faults per execution up to 64 reached calls; worlds and values are sampled."),
}

def main(claimed):
    checks=[]
    for pid in sorted(CHECKS):
        if pid not in claimed: continue
        c=CHECKS[pid]
        checks.append({
          "property_id": pid,
          "quick_cmd": f"./run.sh check {pid} quick",
          "thorough_cmd": f"./run.sh check {pid} thorough",
          "evidence_file": f"/verif/evidence/{pid}.json",
          "replay_cmd_template": "./run.sh replay {path}",
          "engine": c["engine"],
          "level_claimed": {"category": c["category"], "text": c["text"], "design_ref": "DESIGN.md section "+c["ref"]},
          "level_note": c["note"],
          "technique": c["technique"],
        })
    na=[{"property_id":k,"reason":v} for k,v in sorted(NA.items())]
    for pid in sorted(CHECKS):
        if pid not in claimed:
            na.append({"property_id":pid,"reason":"check not built yet in this round (planned: DESIGN section "+CHECKS[pid]["ref"]+"); not claimed until it runs"})
    m={"version":1,
       "setup_cmd":"./setup.sh",
       "hooks":{"guard":"verif (unused: no hook was added to /repo; seams are inserted by /verif's go/types rewriter into a scratch copy of the working tree on every run)",
                "enable":"none needed: ./run.sh copies /repo's working tree to a scratch directory, rewrites range-over-map, mutating os.* calls and time.Now there, and builds that copy",
                "baseline_off_cmd":"cd /repo && go test -mod=mod -vet=off -count=1 -timeout 25m ./...",
                "source_commits":[],
                "add_only":True},
       "engines":[
         {"name":"gensim","path":"internal/gensim","serves_properties":[p for p in ["C09","C15","C16","C17"] if p in claimed],"kind_free_text":"deterministic simulation: goverter CLI (rewritten copy of the working tree) as a node on a simulated disk/environment with controlled map iteration order; seeded histories; fault injection at disk calls"},
         {"name":"convsim","path":"internal/convsim","serves_properties":[p for p in ["C04","C07"] if p in claimed],"kind_free_text":"deterministic simulation: generated converters under a seeded cooperative scheduler and value-keyed failing custom functions"}],
       "checks":checks,
       "not_applicable":na,
       "notes":"Technique family: deterministic simulation with fault injection only. Exit 2 = infrastructure trouble (never a violation). Genuine defects found: F1-F29 plus regressions of their repairs (DESIGN.md section 7). Repaired ones are unguarded 'fix:' commits in /repo, listed in known-findings.json with status fixed; F9, F11, F19, F20, F22 are known findings (status known) printed as KNOWN-FINDING lines."}
    json.dump(m,open("/verif/MANIFEST.json","w"),indent=1)
    print("claimed:",[c["property_id"] for c in checks])

if __name__=="__main__":
    main(set(sys.argv[1:]))
