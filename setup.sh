#!/bin/sh
# Builds the /verif driver from files on disk only (offline).
set -e
cd "$(dirname "$0")"
export GOFLAGS=-mod=mod GOPROXY=off GOSUMDB=off GOTOOLCHAIN=local GOWORK=off
mkdir -p bin evidence replays
go build -o bin/verif ./cmd/verif
echo "setup ok: $(./bin/verif version 2>/dev/null || echo bin/verif built)"
