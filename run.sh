#!/bin/sh
# ./run.sh check <id> [quick|thorough] | replay <file> | selftest <seam|determinism>
# Exit: 0 held / 1 VIOLATION / 2 infrastructure trouble.
cd "$(dirname "$0")" || exit 2
export GOFLAGS=-mod=mod GOPROXY=off GOSUMDB=off GOTOOLCHAIN=local GOWORK=off
export VERIF_DIR="$(pwd)"
mkdir -p bin evidence replays
go build -o bin/verif ./cmd/verif || { echo "verif: cannot build driver" >&2; exit 2; }
exec ./bin/verif "$@"
