// Command verif is the driver of /verif: deterministic simulation with fault injection for
// jmattheis/goverter.
//
//	verif check <C04|C07|C09|C15|C16|C17> [quick|thorough]
//	verif replay <file>
//	verif selftest <seam|determinism>
//
// Exit status: 0 property held on everything explored (known findings are listed),
// 1 VIOLATION, 2 infrastructure trouble (never a violation).
package main

import (
	"encoding/json"
	"errors"
	"fmt"
	"os"
	"os/exec"
	"path/filepath"
	"sort"
	"strconv"
	"strings"
	"time"

	"verif/internal/convsim"
	"verif/internal/gensim"
	"verif/internal/node"
)

func verifDir() string {
	if d := os.Getenv("VERIF_DIR"); d != "" {
		return d
	}
	wd, _ := os.Getwd()
	return wd
}

func repoDir() string {
	if d := os.Getenv("VERIF_REPO"); d != "" {
		return d
	}
	return "/repo"
}

func seed() uint64 {
	if s := os.Getenv("VERIF_SEED"); s != "" {
		if v, err := strconv.ParseUint(s, 10, 64); err == nil {
			return v
		}
		if v, err := strconv.ParseInt(s, 10, 64); err == nil {
			return uint64(v)
		}
	}
	return 1
}

func infra(err error) {
	fmt.Fprintln(os.Stderr, "verif: infrastructure error:", err)
	os.Exit(2)
}

type knownFinding struct {
	Property string `json:"property"`
	Status   string `json:"status"` // known | fixed
	Key      string `json:"key"`
	What     string `json:"what"`
	Commit   string `json:"commit,omitempty"`
}

func loadKnown(dir string) []knownFinding {
	b, err := os.ReadFile(filepath.Join(dir, "known-findings.json"))
	if err != nil {
		return nil
	}
	var f struct {
		Findings []knownFinding `json:"findings"`
	}
	if err := json.Unmarshal(b, &f); err != nil {
		infra(fmt.Errorf("known-findings.json: %w", err))
	}
	return f.Findings
}

func main() {
	if len(os.Args) < 2 {
		fmt.Fprintln(os.Stderr, "usage: verif check <id> [tier] | replay <file> | selftest <what>")
		os.Exit(2)
	}
	switch os.Args[1] {
	case "check":
		if len(os.Args) < 3 {
			infra(errors.New("check needs a property id"))
		}
		tier := os.Getenv("VERIF_TIER")
		if len(os.Args) > 3 {
			tier = os.Args[3]
		}
		if tier == "" {
			tier = "quick"
		}
		os.Exit(check(os.Args[2], tier))
	case "replay":
		if len(os.Args) < 3 {
			infra(errors.New("replay needs a file"))
		}
		os.Exit(replay(os.Args[2]))
	case "world":
		// debugging aid: verif world <template-index> — run a template world in identity order
		n, err := node.Build(repoDir())
		if err != nil {
			infra(err)
		}
		defer n.Close()
		c := gensim.NewCtx(n, seed(), "debug", verifDir())
		ti, _ := strconv.Atoi(os.Args[2])
		w := gensim.Templates[ti](c.Rng("debug", 0))
		h := &gensim.History{World: w, Ops: []gensim.Op{{Kind: "gen", Gen: &gensim.GenSpec{}}}}
		obs, err := c.Runner.Exec(h)
		if err != nil {
			infra(err)
		}
		for p, f := range w.Files {
			fmt.Printf("--- %s\n%s\n", p, f)
		}
		fmt.Printf("exit=%d\nstderr=%s\nreach=%v\n", obs[0].Exit, obs[0].Stderr, obs[0].RangeReach())
		for p, f := range obs[0].Written {
			fmt.Printf("+++ %s\n%s\n", p, f)
		}
		n.Close()
		os.Exit(0)
	case "selftest":
		if len(os.Args) < 3 {
			infra(errors.New("selftest needs an argument"))
		}
		os.Exit(selftest(os.Args[2]))
	default:
		infra(fmt.Errorf("unknown command %q", os.Args[1]))
	}
}

func check(id, tier string) int {
	t0 := time.Now()
	vd := verifDir()
	switch id {
	case "C04", "C07":
		out, err := convsim.Check(id, tier, seed(), repoDir(), vd)
		if err != nil {
			infra(err)
		}
		return report(out, vd, tier, t0)
	}
	n, err := node.Build(repoDir())
	if err != nil {
		infra(err)
	}
	defer n.Close()
	c := gensim.NewCtx(n, seed(), tier, vd)
	if err := gensim.ValidateSeam(c, 12); err != nil {
		n.Close()
		infra(err)
	}
	var out *gensim.Outcome
	switch id {
	case "C09":
		out, err = gensim.CheckC09(c)
	case "C15":
		out, err = gensim.CheckC15(c)
	case "C16":
		out, err = gensim.CheckC16(c)
	case "C17":
		out, err = gensim.CheckC17(c)
	default:
		n.Close()
		infra(fmt.Errorf("no check for property %q", id))
	}
	if err != nil {
		n.Close()
		infra(err)
	}
	gensim.FillCoverage(c, out)
	code := report(out, vd, tier, t0)
	return code
}

// report prints KNOWN-FINDING / VIOLATION lines, writes evidence, returns the exit code.
func report(out *gensim.Outcome, vd, tier string, t0 time.Time) int {
	known := loadKnown(vd)
	viol := 0
	knownHits := 0
	for i, f := range out.Found {
		matched := false
		for _, k := range known {
			if k.Status == "known" && k.Property == out.Property && k.Key == f.V.Key {
				fmt.Printf("KNOWN-FINDING: property=%s %s (%s)\n", out.Property, k.What, k.Key)
				matched = true
				knownHits++
				break
			}
		}
		if matched {
			continue
		}
		viol++
		fmt.Printf("VIOLATION property=%s replay=%s\n", out.Property, out.Replays[i])
		fmt.Printf("  class=%s key=%s\n  %s\n", f.V.Class, f.V.Key, f.V.Msg)
	}
	cov := out.Coverage
	if cov == nil {
		cov = map[string]any{}
	}
	cov["known_findings_hit"] = knownHits
	ev := map[string]any{
		"property_id": out.Property,
		"tier":        tier,
		"seed":        int64(seed()),
		"level":       out.Level,
		"coverage":    cov,
		"assumptions": out.Assume,
		"wall_s":      time.Since(t0).Seconds(),
		"violations":  viol,
	}
	b, _ := json.MarshalIndent(ev, "", " ")
	_ = os.MkdirAll(filepath.Join(vd, "evidence"), 0o755)
	if err := os.WriteFile(filepath.Join(vd, "evidence", out.Property+".json"), b, 0o644); err != nil {
		infra(err)
	}
	if viol > 0 {
		return 1
	}
	fmt.Printf("OK property=%s tier=%s seed=%d evaluations=%v distinct_nontrivial=%v wall=%.1fs\n", out.Property, tier, seed(), cov["evaluations"], cov["distinct_nontrivial"], time.Since(t0).Seconds())
	return 0
}

func replay(path string) int {
	r, err := gensim.ReadReplay(path)
	if err != nil {
		infra(err)
	}
	if r.Engine == "convsim" {
		code, err := convsim.Replay(path, repoDir(), verifDir())
		if err != nil {
			infra(err)
		}
		return code
	}
	n, err := node.Build(repoDir())
	if err != nil {
		infra(err)
	}
	defer n.Close()
	c := gensim.NewCtx(n, r.Seed, "replay", verifDir())
	judge := gensim.JudgeFor(r.Property)
	if judge == nil {
		infra(fmt.Errorf("no judge for %s", r.Property))
	}
	obs, err := c.Runner.Exec(r.History)
	if err != nil {
		infra(err)
	}
	vs, err := judge(c, r.History, obs)
	if err != nil {
		infra(err)
	}
	for rep := 1; r.Native && len(vs) == 0 && rep < 16; rep++ {
		// recorded as not recurring on every execution: repeat
		if obs, err = c.Runner.Exec(r.History); err != nil {
			infra(err)
		}
		if vs, err = judge(c, r.History, obs); err != nil {
			infra(err)
		}
		fmt.Printf("repetition %d of a natively nondeterministic finding: %d violation(s)\n", rep+1, len(vs))
	}
	for _, o := range obs {
		fmt.Printf("op %d: argv=%q exit=%d crashed=%v faults=%v\n  stderr: %s\n", o.OpIndex, o.Argv, o.Exit, o.Crashed, o.FaultsFired, strings.ReplaceAll(strings.TrimSpace(o.Stderr), "\n", "\n          "))
		var ps []string
		for p := range o.Written {
			ps = append(ps, p)
		}
		sort.Strings(ps)
		fmt.Printf("  wrote: %v\n", ps)
	}
	for _, v := range vs {
		if v.Class == r.Class {
			fmt.Printf("VIOLATION property=%s replay=%s\n  class=%s\n  %s\n", r.Property, path, v.Class, v.Msg)
			return 1
		}
	}
	if len(vs) > 0 {
		fmt.Printf("VIOLATION property=%s replay=%s\n  class=%s (recorded class was %s)\n  %s\n", r.Property, path, vs[0].Class, r.Class, vs[0].Msg)
		return 1
	}
	fmt.Printf("replay of %s: no violation on the current tree (recorded: %s)\n", path, r.Class)
	return 0
}

// selftestDeterminism runs the digest in many fresh processes: several seeds, each at least
// four times across GOMAXPROCS 1/4/16 and worker counts 1/16, and diffs the outputs.
func selftestDeterminism() int {
	seeds := 8
	if s := os.Getenv("VERIF_DET_SEEDS"); s != "" {
		seeds, _ = strconv.Atoi(s)
	}
	type cfg struct{ gmp, workers string }
	cfgs := []cfg{{"16", "16"}, {"1", "16"}, {"4", "1"}, {"16", "4"}, {"4", "16"}}
	self, _ := os.Executable()
	bad := 0
	runs := 0
	type job struct {
		seed int
		c    cfg
		out  string
		err  error
	}
	jobs := []*job{}
	for s := 1; s <= seeds; s++ {
		for _, c := range cfgs {
			jobs = append(jobs, &job{seed: s, c: c})
		}
	}
	sem := make(chan struct{}, 4)
	done := make(chan *job)
	for _, j := range jobs {
		go func(j *job) {
			sem <- struct{}{}
			defer func() { <-sem; done <- j }()
			cmd := exec.Command(self, "selftest", "determinism-child")
			cmd.Env = append(os.Environ(), fmt.Sprintf("VERIF_SEED=%d", j.seed), "GOMAXPROCS="+j.c.gmp, "VERIF_WORKERS="+j.c.workers)
			b, err := cmd.Output()
			j.out, j.err = string(b), err
		}(j)
	}
	for range jobs {
		<-done
	}
	for s := 1; s <= seeds; s++ {
		var ref *job
		for _, j := range jobs {
			if j.seed != s {
				continue
			}
			runs++
			if j.err != nil {
				fmt.Printf("seed %d GOMAXPROCS=%s workers=%s: child failed: %v\n", s, j.c.gmp, j.c.workers, j.err)
				bad++
				continue
			}
			if ref == nil {
				ref = j
				continue
			}
			if j.out != ref.out {
				bad++
				a, b := strings.Split(ref.out, "\n"), strings.Split(j.out, "\n")
				for i := 0; i < len(a) && i < len(b); i++ {
					if a[i] != b[i] {
						fmt.Printf("seed %d: GOMAXPROCS=%s/workers=%s vs GOMAXPROCS=%s/workers=%s differ at line %d:\n  %s\n  %s\n", s, ref.c.gmp, ref.c.workers, j.c.gmp, j.c.workers, i, a[i], b[i])
						break
					}
				}
			}
		}
		if ref != nil {
			fmt.Printf("seed %d: %d digest lines, %d configurations\n", s, len(strings.Split(ref.out, "\n")), len(cfgs))
		}
	}
	if bad > 0 {
		fmt.Printf("DETERMINISM FAILED: %d of %d runs differ\n", bad, runs)
		return 2
	}
	fmt.Printf("determinism ok: %d seeds x %d fresh processes (GOMAXPROCS 1/4/16, workers 1/4/16), all digests identical\n", seeds, len(cfgs))
	return 0
}

func selftest(what string) int {
	switch what {
	case "seam":
		n, err := node.Build(repoDir())
		if err != nil {
			infra(err)
		}
		defer n.Close()
		c := gensim.NewCtx(n, seed(), "selftest", verifDir())
		if err := gensim.ValidateSeam(c, 100000); err != nil {
			fmt.Println("FAIL:", err)
			return 2
		}
		fmt.Printf("seam ok: %d sites, %d map-range sites, warnings=%v, node invocations=%d\n", len(n.Sites), n.MapRanges, n.Warnings, c.Runner.Invocations.Load())
		return 0
	case "determinism-child":
		// prints the digest of a seed-derived batch; run by "selftest determinism" in fresh
		// processes under several GOMAXPROCS / worker counts
		workers, _ := strconv.Atoi(os.Getenv("VERIF_WORKERS"))
		if workers == 0 {
			workers = 16
		}
		n, err := node.Build(repoDir())
		if err != nil {
			infra(err)
		}
		defer n.Close()
		c := gensim.NewCtx(n, seed(), "selftest", verifDir())
		c.Workers = workers
		lines, err := gensim.Digest(c, 24)
		if err != nil {
			n.Close()
			infra(err)
		}
		for _, l := range lines {
			fmt.Println(l)
		}
		cl, err := convsim.Digest(seed(), repoDir())
		if err != nil {
			n.Close()
			infra(err)
		}
		for _, l := range cl {
			fmt.Println(l)
		}
		return 0
	case "c04-sensitivity":
		out, err := convsim.SelftestC04Sensitivity(seed(), repoDir())
		fmt.Println(out)
		if err != nil {
			infra(err)
		}
		return 0
	case "determinism":
		return selftestDeterminism()
	}
	infra(fmt.Errorf("unknown selftest %q", what))
	return 2
}
